#!/bin/sh
# Rebuild the repository with its own build system (guard define OFF) and run its 19 tests.
set -e
R=${1:-/repo}
B=${2:-$R/_build}
if [ ! -f "$B/build.ninja" ] && [ ! -f "$B/Makefile" ]; then
  cmake -G Ninja -S "$R" -B "$B" >/dev/null
fi
cmake --build "$B" >/dev/null
ctest --test-dir "$B" -j8 --timeout 900 2>&1 | tail -5
