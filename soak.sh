#!/bin/sh
# soak.sh <tier> <seed>... : run every check with each seed, print anything that is not OK
tier=$1; shift
for s in "$@"; do
  for p in C01 C02 C03 C04 C05 C06 C07 C08 C09 C10 C11 C12 C13 C14 C15 C16 C17 C18 C19 C20; do
    out=$(VERIF_SEED=$s ./check $p $tier 2>&1); rc=$?
    if [ $rc -ne 0 ]; then echo "=== seed=$s $p rc=$rc"; echo "$out" | grep -v "^    #" | cut -c1-400 | tail -12; fi
  done
  echo "seed $s done"
done
