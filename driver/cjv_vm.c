/* cjv_vm.c - case interpreter: one line = one op on a register file of cJSON pointers.
 *
 *   case <id> <cfg>      begin a case (cfg: default|custom|arena|onlymalloc|onlyfree, optional suffix +e<errno>)
 *   <op> args...         see the table in exec()
 *   end                  ledger summary, slots dropped
 *
 * Every op writes one "R <case> <op#> ..." record; monitors write "V ..." records.
 */
#define _GNU_SOURCE
#include <stdarg.h>
#include <stdlib.h>
#include <string.h>
#include <unistd.h>
#include <math.h>
#include <locale.h>
#include "cjv_vm.h"

cJSON *slot[NSLOT];
int vm_thorough;
static bbuf scratch;
static const char *cur_cfg = "default";

/* ---- token helpers ---- */
static int hexval(int c) { if (c >= '0' && c <= '9') return c - '0'; if (c >= 'a' && c <= 'f') return c - 'a' + 10; if (c >= 'A' && c <= 'F') return c - 'A' + 10; return -1; }

int tk_slot(const char *t)
{
    long v;
    if (t[0] == '~') return -1;
    v = strtol(t, NULL, 10);
    if (v < 0 || v >= NSLOT) cjv_fatal("bad slot '%s'", t);
    return (int)v;
}
cJSON *tk_item(const char *t)
{
    /* a handle the model believes to be alive must be a live block of the allocator: if the library
     * released it behind the model's back, say so instead of letting the driver touch freed memory */
    int s = tk_slot(t);
    cJSON *p = s < 0 ? NULL : slot[s];
    if (p != NULL && led_lookup(p, NULL, NULL) != 1) {
        cjv_violation("wf/not-live", "handle: the item in slot %d (%p) is no longer a live block of the allocator (released by an earlier call)", s, (void *)p);
        slot[s] = NULL;
        return NULL;
    }
    return p;
}
long tk_int(const char *t) { return strtol(t, NULL, 10); }
double tk_dbl(const char *t)
{
    uint64_t b = strtoull(t, NULL, 16);
    double d;
    memcpy(&d, &b, 8);
    return d;
}

static size_t unhex(const char *h, size_t hn, unsigned char *out)
{
    size_t i;
    if (hn & 1) cjv_fatal("odd hex length");
    for (i = 0; i < hn / 2; i++) {
        int a = hexval(h[2 * i]), b = hexval(h[2 * i + 1]);
        if (a < 0 || b < 0) cjv_fatal("bad hex digit");
        out[i] = (unsigned char)((a << 4) | b);
    }
    return hn / 2;
}

unsigned char *tk_bytes(const char *t, size_t *n)
{
    unsigned char *out;
    if (t[0] == '~') { *n = 0; return NULL; }
    if (t[0] == '=') {
        size_t hn = strlen(t + 1);
        out = xmalloc(hn / 2 + 1);
        *n = unhex(t + 1, hn, out);
        out[*n] = 0;
        return out;
    }
    if (t[0] == '*') {
        char *e;
        long k = strtol(t + 1, &e, 10), i;
        const char *a, *m, *b;
        size_t an, mn, bn, al, ml, bl, off = 0;
        unsigned char *A, *M, *B;
        if (*e != ':') cjv_fatal("bad rep token");
        a = e + 1; m = strchr(a, ':'); if (!m) cjv_fatal("bad rep token"); an = (size_t)(m - a); m++;
        b = strchr(m, ':'); if (!b) cjv_fatal("bad rep token"); mn = (size_t)(b - m); b++; bn = strlen(b);
        A = xmalloc(an / 2 + 1); M = xmalloc(mn / 2 + 1); B = xmalloc(bn / 2 + 1);
        al = unhex(a, an, A); ml = unhex(m, mn, M); bl = unhex(b, bn, B);
        out = xmalloc((size_t)k * (al + bl) + ml + 1);
        for (i = 0; i < k; i++) { memcpy(out + off, A, al); off += al; }
        memcpy(out + off, M, ml); off += ml;
        for (i = 0; i < k; i++) { memcpy(out + off, B, bl); off += bl; }
        out[off] = 0;
        *n = off;
        xfree(A); xfree(M); xfree(B);
        return out;
    }
    cjv_fatal("bad bytes token '%.20s'", t);
}

static char *tk_str(const char *t)          /* C string (bytes up to first NUL), NULL for "~" */
{
    size_t n;
    return (char *)tk_bytes(t, &n);
}

void rlog(const char *fmt, ...)
{
    va_list ap;
    fprintf(cjv_log, "R %ld %ld ", cjv_case_id, cjv_op_idx);
    va_start(ap, fmt);
    vfprintf(cjv_log, fmt, ap);
    va_end(ap);
    fputc('\n', cjv_log);
}

static void rptr(const void *p) { rlog(p ? "p" : "nil"); }

static long child_index(const cJSON *parent, const cJSON *p)
{
    const cJSON *c;
    long i = 0;
    if (!parent || !p) return -1;
    WALK_BEGIN();
    for (c = parent->child; c; c = c->next, i++) { if (c == p) { WALK_END(); return i; } if (i > 10000000) break; }
    WALK_END();
    return -1;
}

static void set_slot(const char *t, cJSON *v)
{
    int s = tk_slot(t);
    if (s >= 0) slot[s] = v;
}

/* ---- allocator configuration ---- */
static void apply_cfg(const char *cfg_)
{
    cJSON_Hooks h;
    static char cfg[32];
    snprintf(cfg, sizeof cfg, "%s", cfg_);
    cur_cfg = cfg;
    if (!strcmp(cfg, "default")) { LIB_BEGIN("cJSON_InitHooks"); cJSON_InitHooks(NULL); LIB_END(); led_expect_origin = ORG_LIBC; }
    else if (!strcmp(cfg, "defaultnull")) { h.malloc_fn = NULL; h.free_fn = NULL; LIB_BEGIN("cJSON_InitHooks"); cJSON_InitHooks(&h); LIB_END(); led_expect_origin = ORG_LIBC; }
    else if (!strcmp(cfg, "custom")) { h.malloc_fn = led_hook_malloc; h.free_fn = led_hook_free; LIB_BEGIN("cJSON_InitHooks"); cJSON_InitHooks(&h); LIB_END(); led_expect_origin = ORG_HOOK; }
    else if (!strcmp(cfg, "arena")) { h.malloc_fn = led_arena_malloc; h.free_fn = led_arena_free; LIB_BEGIN("cJSON_InitHooks"); cJSON_InitHooks(&h); LIB_END(); led_expect_origin = ORG_ARENA; }
    else if (!strcmp(cfg, "onlymalloc")) { h.malloc_fn = led_hook_malloc_libc; h.free_fn = NULL; LIB_BEGIN("cJSON_InitHooks"); cJSON_InitHooks(&h); LIB_END(); led_expect_origin = ORG_LIBC; }
    else if (!strcmp(cfg, "onlyfree")) { h.malloc_fn = NULL; h.free_fn = led_hook_free_libc; LIB_BEGIN("cJSON_InitHooks"); cJSON_InitHooks(&h); LIB_END(); led_expect_origin = ORG_LIBC; }
    else cjv_fatal("unknown cfg '%s'", cfg);
}

static void log_counters(const char *tag)
{
    fprintf(cjv_log, "%s %ld cfg=%s live=%ld bytes=%ld req=%ld frees=%ld freenull=%ld peak=%ld wm=%ld wc=%ld wr=%ld wf=%ld hm=%ld hf=%ld fired=%ld badfree=%ld bor=%08x\n",
            tag, cjv_case_id, cur_cfg, led.live_blocks, led.live_bytes, led.requests, led.frees, led.free_null, led.peak_blocks,
            led.wrap_malloc, led.wrap_calloc, led.wrap_realloc, led.wrap_free, led.hook_malloc, led.hook_free, led.fail_fired, led.bad_free, bor_checksum());
}

/* ---- fault loop state ---- */
static int f_active;            /* inside a fault iteration */
static long f_k;                /* failpoint index for this iteration (0 = counting run) */
static int f_target_failed;     /* did the target op report failure */
static int last_failed;         /* did the last op report its failure value (nil / 0) */
static uint32_t f_serial_before;

static void exec(char *line);

/* ---- ops ---- */
#define ARGN(k) do { if (t->n < (k) + 1) cjv_fatal("op %s needs %d args", t->tok[0], (k)); } while (0)
#define T(i) (t->tok[(i)])

static void op_chk(toks *t, int flags)
{
    cJSON *r = tk_item(T(1));
    if (r == NULL) { rlog("chk -"); return; }
    if (wf_check(r, flags, T(0))) { rlog("chk bad"); return; }
    bb_reset(&scratch);
    { int rc = tn_dump(&scratch, r); if (rc < 0) { cjv_violation(rc == -2 ? "wf/dangling-pointer" : "wf/cycle-or-runaway", rc == -2 ? "the tree reaches memory that is not a live block" : "dump did not terminate"); rlog("chk bad"); return; } }
    rlog("chk %08x:%zu", cjv_crc32(scratch.p, scratch.n), scratch.n);
}

static void op_tn(toks *t)
{
    cJSON *r = tk_item(T(1));
    bb_reset(&scratch);
    { int rc = tn_dump(&scratch, r); if (rc < 0) { cjv_violation(rc == -2 ? "wf/dangling-pointer" : "wf/cycle-or-runaway", rc == -2 ? "the tree reaches memory that is not a live block" : "dump did not terminate"); rlog("tn bad"); return; } }
    rlog("tn %s", scratch.p);
}

static void op_create(toks *t)
{
    const char *op = T(0);
    cJSON *r = NULL;
    ARGN(1);
    if (!strcmp(op, "cnull")) { LIB_BEGIN("cJSON_CreateNull"); r = cJSON_CreateNull(); LIB_END(); }
    else if (!strcmp(op, "ctrue")) { LIB_BEGIN("cJSON_CreateTrue"); r = cJSON_CreateTrue(); LIB_END(); }
    else if (!strcmp(op, "cfalse")) { LIB_BEGIN("cJSON_CreateFalse"); r = cJSON_CreateFalse(); LIB_END(); }
    else if (!strcmp(op, "cbool")) { ARGN(2); LIB_BEGIN("cJSON_CreateBool"); r = cJSON_CreateBool(TRU((cJSON_bool)tk_int(T(2)))); LIB_END(); }
    else if (!strcmp(op, "cnum")) { ARGN(2); LIB_BEGIN("cJSON_CreateNumber"); r = cJSON_CreateNumber(tk_dbl(T(2))); LIB_END(); }
    else if (!strcmp(op, "cstr")) { char *s; ARGN(2); s = tk_str(T(2)); LIB_BEGIN("cJSON_CreateString"); r = cJSON_CreateString(s); LIB_END(); xfree(s); }
    else if (!strcmp(op, "craw")) { char *s; ARGN(2); s = tk_str(T(2)); LIB_BEGIN("cJSON_CreateRaw"); r = cJSON_CreateRaw(s); LIB_END(); xfree(s); }
    else if (!strcmp(op, "carr")) { LIB_BEGIN("cJSON_CreateArray"); r = cJSON_CreateArray(); LIB_END(); }
    else if (!strcmp(op, "cobj")) { LIB_BEGIN("cJSON_CreateObject"); r = cJSON_CreateObject(); LIB_END(); }
    else if (!strcmp(op, "cstrref") && t->n > 2 && T(2)[0] == '~') { LIB_BEGIN("cJSON_CreateStringReference"); r = cJSON_CreateStringReference(NULL); LIB_END(); }
    else if (!strcmp(op, "cstrref")) { char *s; const char *b; ARGN(2); s = tk_str(T(2)); b = bor_add(s, strlen(s) + 1); LIB_BEGIN("cJSON_CreateStringReference"); r = cJSON_CreateStringReference(b); LIB_END(); xfree(s); }
    else if (!strcmp(op, "cobjref")) { ARGN(2); LIB_BEGIN("cJSON_CreateObjectReference"); r = cJSON_CreateObjectReference(tk_item(T(2))); LIB_END(); }
    else if (!strcmp(op, "carrref")) { ARGN(2); LIB_BEGIN("cJSON_CreateArrayReference"); r = cJSON_CreateArrayReference(tk_item(T(2))); LIB_END(); }
    else cjv_fatal("unknown create op %s", op);
    set_slot(T(1), r);
    last_failed = (r == NULL);
    rptr(r);
}

static void op_bulk(toks *t)
{
    const char *op = T(0);
    cJSON *r = NULL;
    long cnt, i, have;
    ARGN(2);
    /* "<op> d ~ count" => NULL source;  "<op> d n v1..vn" ; n may be negative with a non-NULL source */
    if (T(2)[0] == '~') {
        int c = t->n > 3 ? (int)tk_int(T(3)) : 3;
        if (!strcmp(op, "cints")) { LIB_BEGIN("cJSON_CreateIntArray"); r = cJSON_CreateIntArray(NULL, c); LIB_END(); }
        else if (!strcmp(op, "cfloats")) { LIB_BEGIN("cJSON_CreateFloatArray"); r = cJSON_CreateFloatArray(NULL, c); LIB_END(); }
        else if (!strcmp(op, "cdoubles")) { LIB_BEGIN("cJSON_CreateDoubleArray"); r = cJSON_CreateDoubleArray(NULL, c); LIB_END(); }
        else { LIB_BEGIN("cJSON_CreateStringArray"); r = cJSON_CreateStringArray(NULL, c); LIB_END(); }
        set_slot(T(1), r); last_failed = (r == NULL); rptr(r); return;
    }
    cnt = tk_int(T(2));
    have = t->n - 3;
    if (cnt >= 0 && have < cnt) cjv_fatal("bulk op: %ld values announced, %ld given", cnt, have);
    if (!strcmp(op, "cints")) {
        int *v = xmalloc(sizeof(int) * (size_t)(have + 1));
        const int *b;
        for (i = 0; i < have; i++) v[i] = (int)tk_int(T(3 + i));
        b = (const int *)(const void *)bor_add(v, sizeof(int) * (size_t)(have + 1));
        LIB_BEGIN("cJSON_CreateIntArray"); r = cJSON_CreateIntArray(b, (int)cnt); LIB_END();
        xfree(v);
    } else if (!strcmp(op, "cfloats")) {
        float *v = xmalloc(sizeof(float) * (size_t)(have + 1));
        const float *b;
        for (i = 0; i < have; i++) { uint32_t u = (uint32_t)strtoul(T(3 + i), NULL, 16); memcpy(&v[i], &u, 4); }
        b = (const float *)(const void *)bor_add(v, sizeof(float) * (size_t)(have + 1));
        LIB_BEGIN("cJSON_CreateFloatArray"); r = cJSON_CreateFloatArray(b, (int)cnt); LIB_END();
        xfree(v);
    } else if (!strcmp(op, "cdoubles")) {
        double *v = xmalloc(sizeof(double) * (size_t)(have + 1));
        const double *b;
        for (i = 0; i < have; i++) v[i] = tk_dbl(T(3 + i));
        b = (const double *)(const void *)bor_add(v, sizeof(double) * (size_t)(have + 1));
        LIB_BEGIN("cJSON_CreateDoubleArray"); r = cJSON_CreateDoubleArray(b, (int)cnt); LIB_END();
        xfree(v);
    } else if (!strcmp(op, "cstrs")) {
        const char **v = xmalloc(sizeof(char *) * (size_t)(have + 1));
        const char *const *b;
        for (i = 0; i < have; i++) { char *s = tk_str(T(3 + i)); v[i] = bor_add(s, strlen(s) + 1); xfree(s); }
        v[have] = NULL;
        b = (const char *const *)(const void *)bor_add(v, sizeof(char *) * (size_t)(have + 1));
        LIB_BEGIN("cJSON_CreateStringArray"); r = cJSON_CreateStringArray(b, (int)cnt); LIB_END();
        xfree(v);
    } else cjv_fatal("unknown bulk op %s", op);
    set_slot(T(1), r);
    last_failed = (r == NULL);
    rptr(r);
}

static void op_add(toks *t)
{
    const char *op = T(0);
    cJSON_bool r = 0;
    if (!strcmp(op, "adda")) { ARGN(2); LIB_BEGIN("cJSON_AddItemToArray"); r = cJSON_AddItemToArray(tk_item(T(1)), tk_item(T(2))); LIB_END(); }
    else if (!strcmp(op, "addo")) { char *k; ARGN(3); k = tk_str(T(2)); LIB_BEGIN("cJSON_AddItemToObject"); r = cJSON_AddItemToObject(tk_item(T(1)), k, tk_item(T(3))); LIB_END(); xfree(k); }
    else if (!strcmp(op, "addocs")) { char *k; const char *b = NULL; ARGN(3); k = tk_str(T(2)); if (k) b = bor_add(k, strlen(k) + 1); LIB_BEGIN("cJSON_AddItemToObjectCS"); r = cJSON_AddItemToObjectCS(tk_item(T(1)), b, tk_item(T(3))); LIB_END(); xfree(k); }
    else if (!strcmp(op, "addo_self")) { cJSON *i; ARGN(2); i = tk_item(T(2)); LIB_BEGIN("cJSON_AddItemToObject"); r = cJSON_AddItemToObject(tk_item(T(1)), i ? i->string : NULL, i); LIB_END(); }
    else if (!strcmp(op, "addrefa")) { ARGN(2); LIB_BEGIN("cJSON_AddItemReferenceToArray"); r = cJSON_AddItemReferenceToArray(tk_item(T(1)), tk_item(T(2))); LIB_END(); }
    else if (!strcmp(op, "addrefo")) { char *k; ARGN(3); k = tk_str(T(2)); LIB_BEGIN("cJSON_AddItemReferenceToObject"); r = cJSON_AddItemReferenceToObject(tk_item(T(1)), k, tk_item(T(3))); LIB_END(); xfree(k); }
    else if (!strcmp(op, "ins")) { ARGN(3); LIB_BEGIN("cJSON_InsertItemInArray"); r = cJSON_InsertItemInArray(tk_item(T(1)), (int)tk_int(T(2)), tk_item(T(3))); LIB_END(); }
    else cjv_fatal("unknown add op %s", op);
    last_failed = !r;
    rlog("%d", r ? 1 : 0);
}

static void op_helper(toks *t)
{
    const char *op = T(0);
    cJSON *o, *r = NULL;
    char *k;
    const char *dst;
    ARGN(3);
    o = tk_item(T(1));
    k = tk_str(T(2));
    if (!strcmp(op, "hnull")) { dst = T(3); LIB_BEGIN("cJSON_AddNullToObject"); r = cJSON_AddNullToObject(o, k); LIB_END(); }
    else if (!strcmp(op, "htrue")) { dst = T(3); LIB_BEGIN("cJSON_AddTrueToObject"); r = cJSON_AddTrueToObject(o, k); LIB_END(); }
    else if (!strcmp(op, "hfalse")) { dst = T(3); LIB_BEGIN("cJSON_AddFalseToObject"); r = cJSON_AddFalseToObject(o, k); LIB_END(); }
    else if (!strcmp(op, "hobj")) { dst = T(3); LIB_BEGIN("cJSON_AddObjectToObject"); r = cJSON_AddObjectToObject(o, k); LIB_END(); }
    else if (!strcmp(op, "harr")) { dst = T(3); LIB_BEGIN("cJSON_AddArrayToObject"); r = cJSON_AddArrayToObject(o, k); LIB_END(); }
    else if (!strcmp(op, "hbool")) { ARGN(4); dst = T(4); LIB_BEGIN("cJSON_AddBoolToObject"); r = cJSON_AddBoolToObject(o, k, TRU((cJSON_bool)tk_int(T(3)))); LIB_END(); }
    else if (!strcmp(op, "hnum")) { ARGN(4); dst = T(4); LIB_BEGIN("cJSON_AddNumberToObject"); r = cJSON_AddNumberToObject(o, k, tk_dbl(T(3))); LIB_END(); }
    else if (!strcmp(op, "hstr")) { char *s; ARGN(4); dst = T(4); s = tk_str(T(3)); LIB_BEGIN("cJSON_AddStringToObject"); r = cJSON_AddStringToObject(o, k, s); LIB_END(); xfree(s); }
    else if (!strcmp(op, "hraw")) { char *s; ARGN(4); dst = T(4); s = tk_str(T(3)); LIB_BEGIN("cJSON_AddRawToObject"); r = cJSON_AddRawToObject(o, k, s); LIB_END(); xfree(s); }
    else cjv_fatal("unknown helper op %s", op);
    xfree(k);
    set_slot(dst, r);
    last_failed = (r == NULL);
    rptr(r);
}

static void op_detach(toks *t)
{
    const char *op = T(0);
    cJSON *r = NULL;
    ARGN(3);
    if (!strcmp(op, "detp")) { LIB_BEGIN("cJSON_DetachItemViaPointer"); r = cJSON_DetachItemViaPointer(tk_item(T(1)), tk_item(T(2))); LIB_END(); }
    else if (!strcmp(op, "deta")) { LIB_BEGIN("cJSON_DetachItemFromArray"); r = cJSON_DetachItemFromArray(tk_item(T(1)), (int)tk_int(T(2))); LIB_END(); }
    else if (!strcmp(op, "deto")) { char *k = tk_str(T(2)); LIB_BEGIN("cJSON_DetachItemFromObject"); r = cJSON_DetachItemFromObject(tk_item(T(1)), k); LIB_END(); xfree(k); }
    else if (!strcmp(op, "detocs")) { char *k = tk_str(T(2)); LIB_BEGIN("cJSON_DetachItemFromObjectCaseSensitive"); r = cJSON_DetachItemFromObjectCaseSensitive(tk_item(T(1)), k); LIB_END(); xfree(k); }
    else cjv_fatal("unknown detach op %s", op);
    set_slot(T(3), r);
    last_failed = (r == NULL);
    rptr(r);
}

static void op_delete(toks *t)
{
    const char *op = T(0);
    if (!strcmp(op, "del")) { int s; ARGN(1); s = tk_slot(T(1)); LIB_BEGIN("cJSON_Delete"); cJSON_Delete(s < 0 ? NULL : slot[s]); LIB_END(); if (s >= 0) slot[s] = NULL; }
    else if (!strcmp(op, "dela")) { ARGN(2); LIB_BEGIN("cJSON_DeleteItemFromArray"); cJSON_DeleteItemFromArray(tk_item(T(1)), (int)tk_int(T(2))); LIB_END(); }
    else if (!strcmp(op, "delo")) { char *k; ARGN(2); k = tk_str(T(2)); LIB_BEGIN("cJSON_DeleteItemFromObject"); cJSON_DeleteItemFromObject(tk_item(T(1)), k); LIB_END(); xfree(k); }
    else if (!strcmp(op, "delocs")) { char *k; ARGN(2); k = tk_str(T(2)); LIB_BEGIN("cJSON_DeleteItemFromObjectCaseSensitive"); cJSON_DeleteItemFromObjectCaseSensitive(tk_item(T(1)), k); LIB_END(); xfree(k); }
    else cjv_fatal("unknown delete op %s", op);
    last_failed = 0;
    rlog("v");
}

static void op_replace(toks *t)
{
    const char *op = T(0);
    cJSON_bool r = 0;
    ARGN(3);
    if (!strcmp(op, "repp")) { LIB_BEGIN("cJSON_ReplaceItemViaPointer"); r = cJSON_ReplaceItemViaPointer(tk_item(T(1)), tk_item(T(2)), tk_item(T(3))); LIB_END(); }
    else if (!strcmp(op, "repa")) { LIB_BEGIN("cJSON_ReplaceItemInArray"); r = cJSON_ReplaceItemInArray(tk_item(T(1)), (int)tk_int(T(2)), tk_item(T(3))); LIB_END(); }
    else if (!strcmp(op, "repo")) { char *k = tk_str(T(2)); LIB_BEGIN("cJSON_ReplaceItemInObject"); r = cJSON_ReplaceItemInObject(tk_item(T(1)), k, tk_item(T(3))); LIB_END(); xfree(k); }
    else if (!strcmp(op, "repocs")) { char *k = tk_str(T(2)); LIB_BEGIN("cJSON_ReplaceItemInObjectCaseSensitive"); r = cJSON_ReplaceItemInObjectCaseSensitive(tk_item(T(1)), k, tk_item(T(3))); LIB_END(); xfree(k); }
    else if (!strcmp(op, "repo_self")) {  /* repo_self o r cs : key argument aliases the replacement's own key */
        cJSON *rep = tk_item(T(2));
        if (tk_int(T(3))) { LIB_BEGIN("cJSON_ReplaceItemInObjectCaseSensitive"); r = cJSON_ReplaceItemInObjectCaseSensitive(tk_item(T(1)), rep ? rep->string : NULL, rep); LIB_END(); }
        else { LIB_BEGIN("cJSON_ReplaceItemInObject"); r = cJSON_ReplaceItemInObject(tk_item(T(1)), rep ? rep->string : NULL, rep); LIB_END(); }
    }
    else cjv_fatal("unknown replace op %s", op);
    last_failed = !r;
    rlog("%d", r ? 1 : 0);
}

static void op_set(toks *t)
{
    const char *op = T(0);
    cJSON *o;
    ARGN(2);
    o = tk_item(T(1));
    if (!strcmp(op, "setnum")) {
        double d = tk_dbl(T(2)), r;
        uint64_t b;
        LIB_BEGIN("cJSON_SetNumberValue"); r = cJSON_SetNumberValue(o, d); LIB_END();
        memcpy(&b, &r, 8);
        rlog("%016llx", (unsigned long long)b);
    } else if (!strcmp(op, "setint")) {
        int v = (int)tk_int(T(2));
        double r;
        LIB_BEGIN("cJSON_SetIntValue"); r = cJSON_SetIntValue(o, v); LIB_END();
        rlog("%d", (int)r);
    } else if (!strcmp(op, "setbool")) {
        int v = TRU((int)tk_int(T(2))), r;
        LIB_BEGIN("cJSON_SetBoolValue"); r = cJSON_SetBoolValue(o, v); LIB_END();
        rlog("%d", r & 0xFF);     /* the type proper; which ownership flag bits ride along is not part of any property */
    } else if (!strcmp(op, "setstr")) {
        char *s = tk_str(T(2)), *r;
        LIB_BEGIN("cJSON_SetValuestring"); r = cJSON_SetValuestring(o, s); LIB_END();
        if (r && o && r != o->valuestring) cjv_violation("api/setvaluestring-return", "returned pointer is not the item's valuestring");
        last_failed = (r == NULL);
        rlog(r ? "ok" : "nil");
        xfree(s);
    } else if (!strcmp(op, "setstr_self")) {   /* source = the item's own value + offset: overlapping regions */
        long off = tk_int(T(2));
        char *r = NULL;
        if (o && o->valuestring && (size_t)off <= strlen(o->valuestring)) { LIB_BEGIN("cJSON_SetValuestring"); r = cJSON_SetValuestring(o, o->valuestring + off); LIB_END(); }
        last_failed = (r == NULL);
        rlog(r ? "ok" : "nil");
    } else cjv_fatal("unknown set op %s", op);
}

static void op_query(toks *t)
{
    const char *op = T(0);
    ARGN(1);
    if (!strcmp(op, "size")) { int r; LIB_BEGIN("cJSON_GetArraySize"); r = cJSON_GetArraySize(tk_item(T(1))); LIB_END(); rlog("%d", r); }
    else if (!strcmp(op, "geta")) { cJSON *a, *r; ARGN(3); a = tk_item(T(1)); LIB_BEGIN("cJSON_GetArrayItem"); r = cJSON_GetArrayItem(a, (int)tk_int(T(2))); LIB_END(); set_slot(T(3), r); if (r) rlog("%ld", child_index(a, r)); else rlog("nil"); }
    else if (!strcmp(op, "geto") || !strcmp(op, "getocs")) {
        cJSON *o, *r; char *k; ARGN(3); o = tk_item(T(1)); k = tk_str(T(2));
        if (op[4]) { LIB_BEGIN("cJSON_GetObjectItemCaseSensitive"); r = cJSON_GetObjectItemCaseSensitive(o, k); LIB_END(); }
        else { LIB_BEGIN("cJSON_GetObjectItem"); r = cJSON_GetObjectItem(o, k); LIB_END(); }
        xfree(k); set_slot(T(3), r);
        if (r) rlog("%ld", child_index(o, r)); else rlog("nil");
    }
    else if (!strcmp(op, "has")) { char *k; cJSON_bool r; ARGN(2); k = tk_str(T(2)); LIB_BEGIN("cJSON_HasObjectItem"); r = cJSON_HasObjectItem(tk_item(T(1)), k); LIB_END(); xfree(k); rlog("%d", r ? 1 : 0); }
    else if (!strcmp(op, "iter")) { cJSON *a = tk_item(T(1)), *e; long n = 0; uint32_t h = 0; cJSON_ArrayForEach(e, a) { n++; h = h * 31u + (uint32_t)child_index(a, e); if (n > 10000000) break; } rlog("%ld %08x", n, h); }
    else if (!strcmp(op, "is")) {
        cJSON *i = tk_item(T(1)); int m = 0;
        LIB_BEGIN("cJSON_Is*");
        if (cJSON_IsInvalid(i)) m |= 1;
        if (cJSON_IsFalse(i)) m |= 2;
        if (cJSON_IsTrue(i)) m |= 4;
        if (cJSON_IsBool(i)) m |= 8;
        if (cJSON_IsNull(i)) m |= 16;
        if (cJSON_IsNumber(i)) m |= 32;
        if (cJSON_IsString(i)) m |= 64;
        if (cJSON_IsArray(i)) m |= 128;
        if (cJSON_IsObject(i)) m |= 256;
        if (cJSON_IsRaw(i)) m |= 512;
        LIB_END();
        rlog("%d", m);
    }
    else if (!strcmp(op, "gsv")) { char *r; LIB_BEGIN("cJSON_GetStringValue"); r = cJSON_GetStringValue(tk_item(T(1))); LIB_END(); if (r) { bb_reset(&scratch); bb_hex(&scratch, r, strlen(r)); rlog("=%s", scratch.p ? (char *)scratch.p : ""); } else rlog("nil"); }
    else if (!strcmp(op, "gnv")) { double r; uint64_t b; LIB_BEGIN("cJSON_GetNumberValue"); r = cJSON_GetNumberValue(tk_item(T(1))); LIB_END(); memcpy(&b, &r, 8); if (isnan(r)) rlog("nan"); else rlog("%016llx", (unsigned long long)b); }
    else cjv_fatal("unknown query op %s", op);
}

static void op_parse(toks *t)
{
    /* parse d variant bytes rnt : variant 0 Parse(z) 1 ParseWithOpts(z) 2 ParseWithLength(exact) 3 ParseWithLengthOpts(exact) */
    size_t n;
    unsigned char *b;
    garena g;
    unsigned char *buf;
    cJSON *r = NULL;
    int variant, rnt;
    const char *end = NULL;
    ARGN(4);
    variant = (int)tk_int(T(2)); rnt = (int)tk_int(T(4));
    b = tk_bytes(T(3), &n);
    memset(&g, 0, sizeof g);
    if (b == NULL) buf = NULL;                                    /* "~": NULL text */
    else if (variant <= 1) buf = ga_make(&g, b, n + 1, GP_END, 1);   /* includes the terminating zero */
    else buf = ga_make(&g, b, n, GP_END, 1);
    switch (variant) {
    case 0: LIB_BEGIN("cJSON_Parse"); r = cJSON_Parse((char *)buf); LIB_END(); break;
    case 1: LIB_BEGIN("cJSON_ParseWithOpts"); r = cJSON_ParseWithOpts((char *)buf, &end, TRU(rnt)); LIB_END(); break;
    case 2: LIB_BEGIN("cJSON_ParseWithLength"); r = cJSON_ParseWithLength((char *)buf, n); LIB_END(); break;
    default: LIB_BEGIN("cJSON_ParseWithLengthOpts"); r = cJSON_ParseWithLengthOpts((char *)buf, n, &end, TRU(rnt)); LIB_END(); break;
    }
    ga_release(&g);
    xfree(b);
    set_slot(T(1), r);
    last_failed = (r == NULL);
    rptr(r);
}

static void op_print(toks *t)
{
    /* print s variant [prebuf fmt] : 0 Print 1 PrintUnformatted 2 PrintBuffered 3 PrintPreallocated(len=prebuf) */
    cJSON *s;
    int variant;
    char *r = NULL;
    ARGN(2);
    s = tk_item(T(1));
    variant = (int)tk_int(T(2));
    if (variant == 0) { LIB_BEGIN("cJSON_Print"); r = cJSON_Print(s); LIB_END(); }
    else if (variant == 1) { LIB_BEGIN("cJSON_PrintUnformatted"); r = cJSON_PrintUnformatted(s); LIB_END(); }
    else if (variant == 2) { ARGN(4); LIB_BEGIN("cJSON_PrintBuffered"); r = cJSON_PrintBuffered(s, (int)tk_int(T(3)), TRU((cJSON_bool)tk_int(T(4)))); LIB_END(); }
    else {
        garena g;
        long len;
        char *buf;
        cJSON_bool ok;
        ARGN(4);
        len = tk_int(T(3));
        buf = (char *)ga_make(&g, NULL, (size_t)(len > 0 ? len : 0), GP_END, 0);
        LIB_BEGIN("cJSON_PrintPreallocated"); ok = cJSON_PrintPreallocated(s, buf, (int)len, TRU((cJSON_bool)tk_int(T(4)))); LIB_END();
        if (ok) rlog("%08x", cjv_crc32(buf, strlen(buf))); else rlog("nil");
        last_failed = !ok;
        ga_release(&g);
        return;
    }
    last_failed = (r == NULL);
    if (r) {
        rlog("%08x", cjv_crc32(r, strlen(r)));
        LIB_BEGIN("cJSON_free"); cJSON_free(r); LIB_END();
    } else rlog("nil");
}

static void op_text(toks *t)
{
    /* text s fmt : full printed text in hex (for the strict-JSON oracle) */
    char *r;
    ARGN(2);
    if (tk_int(T(2))) { LIB_BEGIN("cJSON_Print"); r = cJSON_Print(tk_item(T(1))); LIB_END(); }
    else { LIB_BEGIN("cJSON_PrintUnformatted"); r = cJSON_PrintUnformatted(tk_item(T(1))); LIB_END(); }
    if (!r) { rlog("nil"); return; }
    bb_reset(&scratch); bb_hex(&scratch, r, strlen(r));
    rlog("=%s", scratch.n ? (char *)scratch.p : "");
    LIB_BEGIN("cJSON_free"); cJSON_free(r); LIB_END();
}

static void op_dup(toks *t)
{
    cJSON *r;
    ARGN(3);
    LIB_BEGIN("cJSON_Duplicate"); r = cJSON_Duplicate(tk_item(T(2)), TRU((cJSON_bool)tk_int(T(3)))); LIB_END();
    set_slot(T(1), r);
    last_failed = (r == NULL);
    rptr(r);
}

static void op_cmp(toks *t)
{
    cJSON_bool r;
    ARGN(3);
    LIB_BEGIN("cJSON_Compare"); r = cJSON_Compare(tk_item(T(1)), tk_item(T(2)), TRU((cJSON_bool)tk_int(T(3)))); LIB_END();
    rlog("%d", r ? 1 : 0);
}

static void op_utils(toks *t)
{
    const char *op = T(0);
    if (!strcmp(op, "getp")) {        /* getp d s ptr cs */
        cJSON *s, *r; char *p; ARGN(4);
        s = tk_item(T(2)); p = tk_str(T(3));
        if (tk_int(T(4))) { LIB_BEGIN("cJSONUtils_GetPointerCaseSensitive"); r = cJSONUtils_GetPointerCaseSensitive(s, p); LIB_END(); }
        else { LIB_BEGIN("cJSONUtils_GetPointer"); r = cJSONUtils_GetPointer(s, p); LIB_END(); }
        xfree(p);
        set_slot(T(1), r);
        if (r) rlog("%ld", tn_preorder_index(s, r)); else rlog("nil");
    } else if (!strcmp(op, "findp")) { /* findp root target */
        char *r; ARGN(2);
        LIB_BEGIN("cJSONUtils_FindPointerFromObjectTo"); r = cJSONUtils_FindPointerFromObjectTo(tk_item(T(1)), tk_item(T(2))); LIB_END();
        if (r) { bb_reset(&scratch); bb_hex(&scratch, r, strlen(r)); rlog("=%s", scratch.n ? (char *)scratch.p : ""); LIB_BEGIN("cJSON_free"); cJSON_free(r); LIB_END(); }
        else rlog("nil");
    } else if (!strcmp(op, "patch")) { /* patch doc patches cs */
        int r; ARGN(3);
        if (tk_int(T(3))) { LIB_BEGIN("cJSONUtils_ApplyPatchesCaseSensitive"); r = cJSONUtils_ApplyPatchesCaseSensitive(tk_item(T(1)), tk_item(T(2))); LIB_END(); }
        else { LIB_BEGIN("cJSONUtils_ApplyPatches"); r = cJSONUtils_ApplyPatches(tk_item(T(1)), tk_item(T(2))); LIB_END(); }
        last_failed = (r != 0);
        rlog("%d", r);
    } else if (!strcmp(op, "genp")) {  /* genp d from to cs */
        cJSON *r; ARGN(4);
        if (tk_int(T(4))) { LIB_BEGIN("cJSONUtils_GeneratePatchesCaseSensitive"); r = cJSONUtils_GeneratePatchesCaseSensitive(tk_item(T(2)), tk_item(T(3))); LIB_END(); }
        else { LIB_BEGIN("cJSONUtils_GeneratePatches"); r = cJSONUtils_GeneratePatches(tk_item(T(2)), tk_item(T(3))); LIB_END(); }
        set_slot(T(1), r); last_failed = (r == NULL); rptr(r);
    } else if (!strcmp(op, "merge")) { /* merge d target patch cs : target is consumed */
        cJSON *r; int ts; ARGN(4);
        ts = tk_slot(T(2));
        if (tk_int(T(4))) { LIB_BEGIN("cJSONUtils_MergePatchCaseSensitive"); r = cJSONUtils_MergePatchCaseSensitive(ts < 0 ? NULL : slot[ts], tk_item(T(3))); LIB_END(); }
        else { LIB_BEGIN("cJSONUtils_MergePatch"); r = cJSONUtils_MergePatch(ts < 0 ? NULL : slot[ts], tk_item(T(3))); LIB_END(); }
        if (ts >= 0) slot[ts] = NULL;
        set_slot(T(1), r); last_failed = (r == NULL); rptr(r);
    } else if (!strcmp(op, "genm")) {  /* genm d from to cs */
        cJSON *r; ARGN(4);
        if (tk_int(T(4))) { LIB_BEGIN("cJSONUtils_GenerateMergePatchCaseSensitive"); r = cJSONUtils_GenerateMergePatchCaseSensitive(tk_item(T(2)), tk_item(T(3))); LIB_END(); }
        else { LIB_BEGIN("cJSONUtils_GenerateMergePatch"); r = cJSONUtils_GenerateMergePatch(tk_item(T(2)), tk_item(T(3))); LIB_END(); }
        set_slot(T(1), r); last_failed = (r == NULL); rptr(r);
    } else if (!strcmp(op, "sort")) {  /* sort s cs */
        ARGN(2);
        if (tk_int(T(2))) { LIB_BEGIN("cJSONUtils_SortObjectCaseSensitive"); cJSONUtils_SortObjectCaseSensitive(tk_item(T(1))); LIB_END(); }
        else { LIB_BEGIN("cJSONUtils_SortObject"); cJSONUtils_SortObject(tk_item(T(1))); LIB_END(); }
        rlog("v");
    } else if (!strcmp(op, "sortvia")) {  /* sortvia mode s cs : utilities that sort their arguments internally (C19) */
        cJSON *o, *d = NULL, *r = NULL;
        int cs, st = 0;
        const char *mode;
        ARGN(3);
        mode = T(1); o = tk_item(T(2)); cs = (int)tk_int(T(3));
        LIB_BEGIN("cJSON_Duplicate"); d = cJSON_Duplicate(o, TRU(1)); LIB_END();
        if (!strcmp(mode, "genp")) {
            if (cs) { LIB_BEGIN("cJSONUtils_GeneratePatchesCaseSensitive"); r = cJSONUtils_GeneratePatchesCaseSensitive(o, d); LIB_END(); }
            else { LIB_BEGIN("cJSONUtils_GeneratePatches"); r = cJSONUtils_GeneratePatches(o, d); LIB_END(); }
            st = r ? cJSON_GetArraySize(r) : -1;
        } else if (!strcmp(mode, "genm")) {
            if (cs) { LIB_BEGIN("cJSONUtils_GenerateMergePatchCaseSensitive"); r = cJSONUtils_GenerateMergePatchCaseSensitive(o, d); LIB_END(); }
            else { LIB_BEGIN("cJSONUtils_GenerateMergePatch"); r = cJSONUtils_GenerateMergePatch(o, d); LIB_END(); }
            st = r ? 1 : 0;
        } else {                             /* patch "test" of the whole document against its copy */
            cJSON *patch, *one;
            LIB_BEGIN("build-test-patch");
            patch = cJSON_CreateArray(); one = cJSON_CreateObject();
            cJSON_AddItemToObject(one, "op", cJSON_CreateString("test"));
            cJSON_AddItemToObject(one, "path", cJSON_CreateString(""));
            cJSON_AddItemToObject(one, "value", d); d = NULL;
            cJSON_AddItemToArray(patch, one);
            LIB_END();
            if (cs) { LIB_BEGIN("cJSONUtils_ApplyPatchesCaseSensitive"); st = cJSONUtils_ApplyPatchesCaseSensitive(o, patch); LIB_END(); }
            else { LIB_BEGIN("cJSONUtils_ApplyPatches"); st = cJSONUtils_ApplyPatches(o, patch); LIB_END(); }
            r = patch;
        }
        LIB_BEGIN("cJSON_Delete"); cJSON_Delete(r); cJSON_Delete(d); LIB_END();
        rlog("sortvia %d", st);
    } else if (!strcmp(op, "addpatch")) { /* addpatch arr op path val */
        char *o, *p; ARGN(4);
        o = tk_str(T(2)); p = tk_str(T(3));
        LIB_BEGIN("cJSONUtils_AddPatchToArray"); cJSONUtils_AddPatchToArray(tk_item(T(1)), o, p, tk_item(T(4))); LIB_END();
        xfree(o); xfree(p);
        rlog("v");
    } else if (!strcmp(op, "order")) {  /* order s : crc of the sequence of (key, node address rank) - used by the sort oracle */
        cJSON *s = tk_item(T(1)), *c;
        bb_reset(&scratch);
        for (c = s ? s->child : NULL; c; c = c->next) bb_printf(&scratch, "%lx,", (unsigned long)(uintptr_t)c);
        rlog("order %s", scratch.n ? (char *)scratch.p : "-");
    } else cjv_fatal("unknown utils op %s", op);
}

static void op_slot(toks *t)
{
    const char *op = T(0);
    if (!strcmp(op, "mv")) { ARGN(2); set_slot(T(1), tk_item(T(2))); rlog("v"); }
    else if (!strcmp(op, "clr")) { ARGN(1); set_slot(T(1), NULL); rlog("v"); }
    else if (!strcmp(op, "child")) {   /* child d s idx : navigation without a library call */
        cJSON *s, *c; long i; ARGN(3);
        s = tk_item(T(2)); i = tk_int(T(3));
        WALK_BEGIN();
        for (c = s ? s->child : NULL; c && i > 0; c = c->next) i--;
        WALK_END();
        set_slot(T(1), c);
        rptr(c);
    }
    else if (!strcmp(op, "build")) {   /* build d TN */
        const char *p; cJSON *r; ARGN(2);
        p = T(2);
        r = tn_build(&p);
        set_slot(T(1), r);
        rptr(r);
    }
    else if (!strcmp(op, "setloc")) {  /* setloc 1|0 : switch LC_NUMERIC to the comma-decimal test locale / back to C */
        const char *r;
        ARGN(1);
        r = setlocale(LC_NUMERIC, tk_int(T(1)) ? "xx_COMMA" : "C");
        if (r && tk_int(T(1))) { struct lconv *lc = localeconv(); rlog("setloc %s", (lc && lc->decimal_point[0] == ',') ? "comma" : "unavailable"); }
        else rlog("setloc %s", r ? "C" : "unavailable");
    }
    else if (!strcmp(op, "settype")) { /* settype s type : driver-side corruption for "invalid item" cases (C12) */
        cJSON *s; ARGN(2); s = tk_item(T(1)); if (s) s->type = (int)tk_int(T(2)); rlog("v");
    }
    else if (!strcmp(op, "setchild")) { /* setchild s c : driver-side, builds cyclic structures for C11 */
        cJSON *s; ARGN(2); s = tk_item(T(1)); if (s) s->child = tk_item(T(2)); rlog("v");
    }
    else cjv_fatal("unknown slot op %s", op);
}

/* ---- dispatcher ---- */
typedef struct { const char *name; void (*fn)(toks *); } opent;
static void op_chk_root(toks *t) { op_chk(t, WF_ROOT); }
static void op_chk_inner(toks *t) { op_chk(t, 0); }
static void op_cfg(toks *t)
{
    ARGN(1);
    if (led.live_blocks != 0) cjv_violation("leak/before-cfg-switch", "%ld blocks still allocated at a quiescent point", led.live_blocks);
    log_counters("C");
    led.requests = led.frees = led.free_null = 0;
    led.wrap_malloc = led.wrap_calloc = led.wrap_realloc = led.wrap_free = led.hook_malloc = led.hook_free = 0;
    apply_cfg(T(1));
    rlog("v");
}
static void op_onfail(toks *t);
static void op_onok(toks *t);

static const opent optab[] = {
    {"chk", op_chk_root}, {"chkn", op_chk_inner}, {"tn", op_tn},
    {"cnull", op_create}, {"ctrue", op_create}, {"cfalse", op_create}, {"cbool", op_create}, {"cnum", op_create},
    {"cstr", op_create}, {"craw", op_create}, {"carr", op_create}, {"cobj", op_create}, {"cstrref", op_create},
    {"cobjref", op_create}, {"carrref", op_create},
    {"cints", op_bulk}, {"cfloats", op_bulk}, {"cdoubles", op_bulk}, {"cstrs", op_bulk},
    {"adda", op_add}, {"addo", op_add}, {"addocs", op_add}, {"addo_self", op_add}, {"addrefa", op_add}, {"addrefo", op_add}, {"ins", op_add},
    {"hnull", op_helper}, {"htrue", op_helper}, {"hfalse", op_helper}, {"hbool", op_helper}, {"hnum", op_helper},
    {"hstr", op_helper}, {"hraw", op_helper}, {"hobj", op_helper}, {"harr", op_helper},
    {"detp", op_detach}, {"deta", op_detach}, {"deto", op_detach}, {"detocs", op_detach},
    {"del", op_delete}, {"dela", op_delete}, {"delo", op_delete}, {"delocs", op_delete},
    {"repp", op_replace}, {"repa", op_replace}, {"repo", op_replace}, {"repocs", op_replace}, {"repo_self", op_replace},
    {"setnum", op_set}, {"setint", op_set}, {"setbool", op_set}, {"setstr", op_set}, {"setstr_self", op_set},
    {"size", op_query}, {"geta", op_query}, {"geto", op_query}, {"getocs", op_query}, {"has", op_query}, {"iter", op_query},
    {"is", op_query}, {"gsv", op_query}, {"gnv", op_query},
    {"parse", op_parse}, {"print", op_print}, {"text", op_text}, {"dup", op_dup}, {"cmp", op_cmp},
    {"getp", op_utils}, {"findp", op_utils}, {"patch", op_utils}, {"genp", op_utils}, {"merge", op_utils}, {"genm", op_utils},
    {"sort", op_utils}, {"sortvia", op_utils}, {"addpatch", op_utils}, {"order", op_utils},
    {"mv", op_slot}, {"clr", op_slot}, {"setloc", op_slot}, {"child", op_slot}, {"build", op_slot}, {"settype", op_slot}, {"setchild", op_slot},
    {"cfg", op_cfg}, {"onfail", op_onfail}, {"onok", op_onok},
    {"pbat", op_pbat}, {"pstack", op_pstack}, {"prbat", op_prbat}, {"minify", op_minify}, {"dupx", op_dupx}, {"cmpx", op_cmpx},
    {"deepchain", op_deepchain}, {"stackop", op_stackop},
    {NULL, NULL}
};

static void run_toks(toks *t)
{
    const opent *o;
    for (o = optab; o->name; o++) if (!strcmp(o->name, t->tok[0])) { o->fn(t); return; }
    cjv_fatal("unknown op '%s'", t->tok[0]);
}

static void op_onfail(toks *t) { toks u; if (!f_target_failed) { rlog("skip"); return; } ARGN(1); u.tok = t->tok + 1; u.n = t->n - 1; run_toks(&u); }
static void op_onok(toks *t)   { toks u; if (f_target_failed) { rlog("skip"); return; } ARGN(1); u.tok = t->tok + 1; u.n = t->n - 1; run_toks(&u); }

static int split(char *line, char **tok, int max)
{
    int n = 0;
    char *p = line;
    while (*p) {
        while (*p == ' ' || *p == '\t' || *p == '\n' || *p == '\r') p++;
        if (!*p) break;
        if (n == max) cjv_fatal("too many tokens");
        tok[n++] = p;
        while (*p && *p != ' ' && *p != '\t' && *p != '\n' && *p != '\r') p++;
        if (*p) *p++ = 0;
    }
    return n;
}

#define MAXTOK 8192
static char *tokbuf[MAXTOK];

static void exec(char *line)
{
    toks t;
    t.n = split(line, tokbuf, MAXTOK);
    t.tok = tokbuf;
    if (t.n == 0) return;
    if (!strcmp(t.tok[0], "ftarget")) {
        /* the op under the failpoint */
        toks u;
        if (!f_active) cjv_fatal("ftarget outside fbegin/fend");
        u.tok = t.tok + 1; u.n = t.n - 1;
        f_serial_before = led_serial();
        last_failed = 0;
        led_arm_fail(f_k);
        cjv_op_idx++;
        run_toks(&u);
        {
            long seen = led_armed_requests();
            int fired = led_armed_fired();
            led_disarm();
            f_target_failed = last_failed;
            rlog("ftarget k=%ld requests=%ld fired=%d failed=%d live_since=%ld", f_k, seen, fired, last_failed,
                 last_failed ? led_live_since(f_serial_before) : 0L);
        }
        return;
    }
    cjv_op_idx++;
    run_toks(&t);
}

/* ---- main loop (runs on a 1 GiB thread stack: the driver's own walkers recurse as deep as the trees) ---- */
static int real_main(int argc, char **argv);
typedef struct { int argc; char **argv; int rc; } main_args;
static void *main_tramp(void *p) { main_args *a = p; a->rc = real_main(a->argc, a->argv); return NULL; }
#include <pthread.h>
int main(int argc, char **argv)
{
    pthread_attr_t at;
    pthread_t th;
    main_args a;
    a.argc = argc; a.argv = argv; a.rc = 2;
    pthread_attr_init(&at);
    pthread_attr_setstacksize(&at, (size_t)1 << 30);
    if (pthread_create(&th, &at, main_tramp, &a) != 0) { perror("pthread_create"); return 2; }
    pthread_join(th, NULL);
    return a.rc;
}

static int real_main(int argc, char **argv)
{
    char *line = NULL;
    size_t cap = 0;
    ssize_t len;
    FILE *in;
    long skip_before = -1, only_case = -1;
    int i;
    const char *inpath = NULL, *outpath = NULL;
    char **fl = NULL; size_t fl_n = 0, fl_cap = 0; int collecting = 0;

    for (i = 1; i < argc; i++) {
        if (!strcmp(argv[i], "--from") && i + 1 < argc) skip_before = strtol(argv[++i], NULL, 10);
        else if (!strcmp(argv[i], "--only") && i + 1 < argc) only_case = strtol(argv[++i], NULL, 10);
        else if (!strcmp(argv[i], "--thorough")) vm_thorough = 1;
        else if (!inpath) inpath = argv[i];
        else if (!outpath) outpath = argv[i];
    }
    if (!inpath || !outpath) { fprintf(stderr, "usage: cjv [--from N] [--only N] [--thorough] cases log\n"); return 2; }
    in = fopen(inpath, "r");
    if (!in) { perror(inpath); return 2; }
    cjv_log = fopen(outpath, "a");
    if (!cjv_log) { perror(outpath); return 2; }
    setvbuf(cjv_log, NULL, _IOFBF, 1 << 16);
    led_init();
    bor_reset();
    mon_install_handlers();

    while ((len = getline(&line, &cap, in)) >= 0) {
        if (len == 0 || line[0] == '#' || line[0] == '\n') continue;
        if (!strncmp(line, "case ", 5)) {
            char cfg[32] = "default";
            long id = -1;
            sscanf(line + 5, "%ld %31s", &id, cfg);
            cjv_errno_preset = 0;
            if (strchr(cfg, '+')) {     /* default+e34: stale errno 34 at the start of every library call */
                char *plus = strchr(cfg, '+');
                if (plus[1] == 'e') cjv_errno_preset = atoi(plus + 2);
                *plus = 0;
            }
            if ((skip_before >= 0 && id < skip_before) || (only_case >= 0 && id != only_case)) {
                /* skip to the matching end */
                while ((len = getline(&line, &cap, in)) >= 0) if (!strncmp(line, "end", 3)) break;
                continue;
            }
            cjv_case_id = id; cjv_op_idx = -1;
            memset(slot, 0, sizeof slot);
            led_case_begin();
            bor_reset();
            fprintf(cjv_log, "B %ld\n", id);
            fflush(cjv_log);
            mon_alarm(vm_thorough ? 120 : 40);
            setlocale(LC_NUMERIC, "C");
            apply_cfg(cfg);
            f_active = 0; f_target_failed = 0;
            continue;
        }
        if (cjv_case_id < 0) continue;
        if (!strncmp(line, "end", 3)) {
            mon_alarm(0);
            cjv_op_idx = -2;
            tn_release_pinned();
            log_counters("E");
            led_case_end();
            cjv_case_id = -1;
            continue;
        }
        if (!strncmp(line, "fbegin", 6)) { collecting = 1; fl_n = 0; continue; }
        if (!strncmp(line, "fend", 4)) {
            long N, k;
            size_t j;
            long base_idx = cjv_op_idx;
            collecting = 0;
            /* counting run */
            f_active = 1; f_k = 0;
            fprintf(cjv_log, "F %ld 0\n", cjv_case_id);
            N = 0;
            for (j = 0; j < fl_n; j++) {
                char *cp = xmalloc(strlen(fl[j]) + 1);
                strcpy(cp, fl[j]);
                exec(cp);
                xfree(cp);
            }
            fprintf(cjv_log, "G %ld 0 live=%ld\n", cjv_case_id, led.live_blocks);
            N = -1;
            for (k = 1; k <= 100000; k++) {
                cjv_op_idx = base_idx;
                fprintf(cjv_log, "F %ld %ld\n", cjv_case_id, k);
                f_k = k;
                memset(slot, 0, sizeof slot);
                for (j = 0; j < fl_n; j++) {
                    char *cp = xmalloc(strlen(fl[j]) + 1);
                    strcpy(cp, fl[j]);
                    exec(cp);
                    xfree(cp);
                }
                fprintf(cjv_log, "G %ld %ld live=%ld\n", cjv_case_id, k, led.live_blocks);
                if (led.fail_fired < k) { N = k - 1; break; }   /* failpoint beyond the last request: done */
                if (led.fail_fired != k) cjv_fatal("failpoint accounting");
            }
            fprintf(cjv_log, "F %ld done N=%ld\n", cjv_case_id, N);
            f_active = 0;
            for (j = 0; j < fl_n; j++) xfree(fl[j]);
            fl_n = 0;
            continue;
        }
        if (collecting) {
            if (fl_n == fl_cap) { fl_cap = fl_cap ? fl_cap * 2 : 64; fl = xrealloc(fl, fl_cap * sizeof *fl); }
            fl[fl_n] = xmalloc((size_t)len + 1);
            memcpy(fl[fl_n], line, (size_t)len + 1);
            fl_n++;
            continue;
        }
        exec(line);
    }
    fprintf(cjv_log, "Z done\n");
    fflush(cjv_log);
    fclose(cjv_log);
    return cjv_violations ? 1 : 0;
}
