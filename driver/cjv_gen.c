/* cjv_gen.c - C-side seeded generators (used where Python cannot sit in the loop: the
 * multi-threaded TSan driver).  Everything here builds trees through the public API only. */
#include <stdlib.h>
#include <string.h>
#include <stdint.h>
#include "cJSON.h"
#include "cJSON_Utils.h"
#include "cjv_gen.h"

uint64_t g_rnd(grng *r)
{
    uint64_t x = r->s;
    x ^= x >> 12; x ^= x << 25; x ^= x >> 27;
    r->s = x;
    return x * 0x2545F4914F6CDD1DULL;
}
unsigned g_below(grng *r, unsigned n) { return n ? (unsigned)(g_rnd(r) % n) : 0; }

static const char *const KEYS[] = { "a", "A", "b", "key", "", "a/b", "m~n", "0", "1", "k\xc3\xa9", "x y", "~" };
static const double NUMS[] = { 0, 1, -1, 1.5, 1e20, 42, 2147483648.0, 0.25, -7e-3, 123456789.0, 3.141592653589793, 1e-7, -0.0 };

static void g_string(grng *r, char *out, size_t cap)
{
    static const char alpha[] = "abcXYZ 019\"\\/\n\t\x01{}[]:,~\xc3\xa9";
    size_t n = g_below(r, (unsigned)(cap - 1)), i;
    if (g_below(r, 20) == 0) n = 0;
    for (i = 0; i < n; i++) out[i] = alpha[g_below(r, sizeof alpha - 1)];
    /* keep multi-byte sequence intact enough: invalid UTF-8 is fine for cJSON */
    out[n] = 0;
}

cJSON *g_tree(grng *r, int depth, int distinct_keys)
{
    unsigned k = g_below(r, depth >= 3 ? 6 : 10);
    char buf[24];
    switch (k) {
    case 0: return cJSON_CreateNull();
    case 1: return cJSON_CreateBool((int)g_below(r, 2));
    case 2: case 3: return cJSON_CreateNumber(NUMS[g_below(r, sizeof NUMS / sizeof NUMS[0])]);
    case 4: g_string(r, buf, sizeof buf); return cJSON_CreateString(buf);
    case 5: return g_below(r, 2) ? cJSON_CreateStringReference(KEYS[g_below(r, 12)]) : cJSON_CreateRaw("[1, 2]");   /* borrowed text; raw */
    case 6: case 7: {
        cJSON *a = cJSON_CreateArray();
        unsigned n = g_below(r, 5), i;
        for (i = 0; a && i < n; i++) cJSON_AddItemToArray(a, g_tree(r, depth + 1, distinct_keys));
        return a;
    }
    default: {
        cJSON *o = cJSON_CreateObject();
        unsigned n = g_below(r, 5), i;
        unsigned start = g_below(r, 12);
        for (i = 0; o && i < n; i++) {
            const char *key = KEYS[(start + i * (distinct_keys ? 1 : g_below(r, 3))) % 12];
            if (distinct_keys && cJSON_GetObjectItemCaseSensitive(o, key)) continue;
            if (g_below(r, 4) == 0) cJSON_AddItemToObjectCS(o, key, g_tree(r, depth + 1, distinct_keys));   /* constant key (static storage) */
            else cJSON_AddItemToObject(o, key, g_tree(r, depth + 1, distinct_keys));
        }
        return o;
    }
    }
}

uint64_t g_fnv(uint64_t h, const void *d, size_t n)
{
    const unsigned char *p = d;
    size_t i;
    for (i = 0; i < n; i++) { h ^= p[i]; h *= 0x100000001b3ULL; }
    return h;
}
