/* cjv_bat.c - composite "batteries": many monitored library calls per op, mechanical oracles
 * applied in-process, one summary record for the offline (Python) oracles. */
#define _GNU_SOURCE
#include <stdlib.h>
#include <string.h>
#include <math.h>
#include <float.h>
#include <limits.h>
#include "cjv_vm.h"

static bbuf tn_a, tn_b, tn_first, outb;

/* ------------------------------------------------------------------------------------------ */
/* helpers                                                                                    */

static char *lib_print(const cJSON *t, int fmt)
{
    char *r;
    if (fmt) { LIB_BEGIN("cJSON_Print"); r = cJSON_Print(t); LIB_END(); }
    else { LIB_BEGIN("cJSON_PrintUnformatted"); r = cJSON_PrintUnformatted(t); LIB_END(); }
    return r;
}
static void lib_free(void *p) { LIB_BEGIN("cJSON_free"); cJSON_free(p); LIB_END(); }
static void lib_delete(cJSON *t) { LIB_BEGIN("cJSON_Delete"); cJSON_Delete(t); LIB_END(); }

/* print with every entry point, release, delete: "can be walked, printed and deleted" */
static void smoke_print_delete(cJSON *r, const char *what)
{
    char *a, *b, *c;
    size_t la;
    garena g;
    char *buf;
    cJSON_bool ok;
    a = lib_print(r, 0);
    b = lib_print(r, 1);
    LIB_BEGIN("cJSON_PrintBuffered"); c = cJSON_PrintBuffered(r, 1, 1); LIB_END();
    if (!a || !b || !c) cjv_violation("print/null-result", "%s: a parsed tree failed to print (%d%d%d)", what, !!a, !!b, !!c);
    if (b && c && strcmp(b, c) != 0) cjv_violation("print/buffered-differs", "%s: PrintBuffered(1,1) differs from Print", what);
    if (a) {
        la = strlen(a);
        buf = (char *)ga_make(&g, NULL, la + 6, GP_END, 0);
        LIB_BEGIN("cJSON_PrintPreallocated"); ok = cJSON_PrintPreallocated(r, buf, (int)(la + 6), 0); LIB_END();
        if (!ok || memcmp(buf, a, la + 1) != 0) cjv_violation("prealloc/differs", "%s: PrintPreallocated(len+6) %s", what, ok ? "differs from PrintUnformatted" : "failed");
        ga_release(&g);
    }
    if (a) lib_free(a);
    if (b) lib_free(b);
    if (c) lib_free(c);
    lib_delete(r);
}

/* ------------------------------------------------------------------------------------------ */
/* parse battery: C01 (safety), C02/C03 (accept set + TN for the offline oracle), C10         */

typedef struct { const char *name; int z; int entry; int rnt; int rpe; } pvar;
static const pvar pvars[] = {
    { "WL.x",      0, 2, 0, 0 },
    { "WLO.x.0e",  0, 3, 0, 1 },
    { "WLO.x.1e",  0, 3, 1, 1 },
    { "WLO.x.0",   0, 3, 0, 0 },
    { "WLO.x.1",   0, 3, 1, 0 },
    { "P.z",       1, 0, 0, 0 },
    { "WO.z.0e",   1, 1, 0, 1 },
    { "WO.z.1e",   1, 1, 1, 1 },
    { "WO.z.0",    1, 1, 0, 0 },
    { "WL.z",      1, 2, 0, 0 },
    { "WLO.z.1e",  1, 3, 1, 1 },
    { "WLO.z.0e",  1, 3, 0, 1 },
};
#define NPV ((int)(sizeof pvars / sizeof pvars[0]))

static cJSON *call_parse(const pvar *v, const char *buf, size_t len, const char **end)
{
    cJSON *r = NULL;
    switch (v->entry) {
    case 0: LIB_BEGIN("cJSON_Parse"); r = cJSON_Parse(buf); LIB_END(); break;
    case 1: LIB_BEGIN("cJSON_ParseWithOpts"); r = cJSON_ParseWithOpts(buf, v->rpe ? end : NULL, TRU(v->rnt)); LIB_END(); break;
    case 2: LIB_BEGIN("cJSON_ParseWithLength"); r = cJSON_ParseWithLength(buf, len); LIB_END(); break;
    default: LIB_BEGIN("cJSON_ParseWithLengthOpts"); r = cJSON_ParseWithLengthOpts(buf, len, v->rpe ? end : NULL, TRU(v->rnt)); LIB_END(); break;
    }
    return r;
}

void op_pbat(toks *t)
{
    size_t n, zn;
    unsigned char *b;
    int vi, have_first = 0, has_nul, agree = 1;
    char acc[NPV + 1];
    long ends[NPV], errs[NPV];
    if (t->n < 2) cjv_fatal("pbat needs bytes");
    b = tk_bytes(t->tok[1], &n);
    has_nul = n > 0 && memchr(b, 0, n) != NULL;
    zn = strlen((char *)b);               /* what the strlen-based entry points see */
    bb_reset(&tn_first);
    for (vi = 0; vi < NPV; vi++) {
        const pvar *v = &pvars[vi];
        int placement, nplace = (CJV_PLAIN && (vi == 1 || vi == 6)) ? 2 : 1;
        acc[vi] = '0'; ends[vi] = -1; errs[vi] = -1;
        for (placement = 0; placement < nplace; placement++) {
            garena g;
            size_t len = v->z ? n + 1 : n;            /* bytes made accessible */
            size_t eff = v->entry <= 1 ? zn + 1 : len; /* buffer the library is told about / discovers */
            const char *buf = (const char *)ga_make(&g, b, len, placement ? GP_START : GP_END, 1);
            const char *end = (const char *)-1, *err;
            long live0 = led.live_blocks;
            cJSON *r = call_parse(v, buf, len, &end);
            LIB_BEGIN("cJSON_GetErrorPtr"); err = cJSON_GetErrorPtr(); LIB_END();
            if (r) {
                if (err != NULL) cjv_violation("c10/errptr-after-success", "%s: global error pointer is not NULL after a successful parse", v->name);
                if (v->rpe) {
                    if (end < buf || end > buf + eff) cjv_violation("c10/end-out-of-range", "%s: parse end %ld outside [0,%zu]", v->name, (long)(end - buf), eff);
                    else if (placement == 0) ends[vi] = (long)(end - buf);
                }
                if (led_fault_mode()) {
                    /* fault enumeration over the battery (C10): only the parse itself is judged */
                    if (placement == 0) acc[vi] = '1';
                    lib_delete(r);
                    ga_release(&g);
                    continue;
                }
                if (wf_check(r, WF_ROOT, v->name) == 0) {
                    bb_reset(&tn_a);
                    if (tn_dump(&tn_a, r) < 0) cjv_violation("wf/cycle-or-runaway", "%s: dump of parsed tree did not terminate", v->name);
                    if (!have_first) { bb_reset(&tn_first); bb_put(&tn_first, tn_a.p, tn_a.n); have_first = 1; }
                    else if (!has_nul && (tn_a.n != tn_first.n || memcmp(tn_a.p, tn_first.p, tn_a.n) != 0)) {
                        agree = 0;
                        cjv_violation("c02/entry-points-disagree", "%s: tree differs from the first accepting entry point's", v->name);
                    }
                    /* C10: the bytes before the parse end parse, by themselves, to an equal tree */
                    if (v->rpe && placement == 0 && ends[vi] >= 0) {
                        garena g2;
                        size_t pl = (size_t)ends[vi];
                        const char *pb = (const char *)ga_make(&g2, buf, pl, GP_END, 1);
                        cJSON *r2;
                        LIB_BEGIN("cJSON_ParseWithLength"); r2 = cJSON_ParseWithLength(pb, pl); LIB_END();
                        if (!r2) cjv_violation("c10/prefix-reparse-null", "%s: bytes [0,%zu) before the reported parse end do not parse", v->name, pl);
                        else {
                            bb_reset(&tn_b);
                            tn_dump(&tn_b, r2);
                            if (tn_b.n != tn_a.n || memcmp(tn_a.p, tn_b.p, tn_a.n) != 0) cjv_violation("c10/prefix-reparse-differs", "%s: prefix [0,%zu) parses to a different tree", v->name, pl);
                            lib_delete(r2);
                        }
                        ga_release(&g2);
                    }
                }
                if (placement == 0) acc[vi] = '1';
                smoke_print_delete(r, v->name);
                if (led.live_blocks != live0) cjv_violation("leak/parse-print-delete", "%s: %ld blocks remain after parse, print, delete", v->name, led.live_blocks - live0);
            } else {
                const char *lo = buf, *hi = buf + (eff > 0 ? eff - 1 : 0);
                if (err == NULL) cjv_violation("c10/errptr-null-after-failure", "%s: global error pointer is NULL after a failed parse", v->name);
                else if (err < lo || err > hi) cjv_violation("c10/errptr-out-of-range", "%s: error position %ld outside [0,%ld]", v->name, (long)(err - buf), (long)(hi - lo));
                else if (placement == 0) errs[vi] = (long)(err - buf);
                if (v->rpe && end != err) cjv_violation("c10/end-ne-errptr", "%s: reported error position %ld differs from global error pointer %ld", v->name, (long)(end - buf), err ? (long)(err - buf) : -1L);
                if (led.live_blocks != live0) cjv_violation("leak/parse-reject", "%s: rejection left %ld blocks allocated", v->name, led.live_blocks - live0);
            }
            ga_release(&g);
        }
    }
    acc[NPV] = 0;
    bb_reset(&outb);
    for (vi = 0; vi < NPV; vi++) bb_printf(&outb, "%s%ld", vi ? "," : "", ends[vi]);
    bb_puts(&outb, " err=");
    for (vi = 0; vi < NPV; vi++) bb_printf(&outb, "%s%ld", vi ? "," : "", errs[vi]);
    rlog("pbat n=%zu acc=%s agree=%d end=%s tn=%s", n, acc, agree, outb.p, have_first ? (char *)tn_first.p : "-");
    xfree(b);
}

/* ------------------------------------------------------------------------------------------ */
/* parse / delete on a painted stack (C03 deep nesting, C01 nesting shapes)                   */

typedef struct { const char *buf; size_t len; cJSON *r; int do_print; } pstack_arg;
static void pstack_fn(void *a_)
{
    pstack_arg *a = a_;
    LIB_BEGIN("cJSON_ParseWithLength"); a->r = cJSON_ParseWithLength(a->buf, a->len); LIB_END();
    if (a->r && a->do_print) {
        char *s = lib_print(a->r, 1);
        if (s) lib_free(s);
    }
    if (a->r) lib_delete(a->r);
}

void op_pstack(toks *t)
{
    size_t n, used;
    unsigned char *b;
    garena g;
    pstack_arg a;
    long live0 = led.live_blocks;
    if (t->n < 2) cjv_fatal("pstack needs bytes");
    b = tk_bytes(t->tok[1], &n);
    a.buf = (const char *)ga_make(&g, b, n, GP_END, 1);
    a.len = n; a.r = NULL; a.do_print = 1;
    used = stack_run(pstack_fn, &a);
    if (led.live_blocks != live0) cjv_violation(a.r ? "leak/parse-print-delete" : "leak/parse-reject", "pstack: %ld blocks remain", led.live_blocks - live0);
    rlog("pstack n=%zu acc=%d used=%zu", n, a.r ? 1 : 0, used);
    ga_release(&g);
    xfree(b);
}

/* ------------------------------------------------------------------------------------------ */
/* tree equivalence with the tolerances of C04                                                */

int tree_equiv(const cJSON *a, const cJSON *b, int nonfinite_as_null, char *why, size_t whylen)
{
    const cJSON *ca, *cb;
    int ta, tb;
    if (!a || !b) { snprintf(why, whylen, "missing node"); return 0; }
    ta = a->type & 0xFF; tb = b->type & 0xFF;
    if ((a->string == NULL) != (b->string == NULL) || (a->string && strcmp(a->string, b->string) != 0)) { snprintf(why, whylen, "key differs"); return 0; }
    if (ta == cJSON_Number && nonfinite_as_null && !isfinite(a->valuedouble)) {
        if (tb != cJSON_NULL) { snprintf(why, whylen, "non-finite number did not come back as null"); return 0; }
        return 1;
    }
    if (ta != tb) { snprintf(why, whylen, "type %d vs %d", ta, tb); return 0; }
    switch (ta) {
    case cJSON_Number: {
        double x = a->valuedouble, y = b->valuedouble;
        if (x == y) return 1;
        if (fabs(x) < 1e15 && x == floor(x)) { snprintf(why, whylen, "integer %.17g came back as %.17g", x, y); return 0; }
        /* one part in 2^52 of the larger magnitude (the reading under which the boundary case - a
         * value exactly 2^-52 away, relative to the larger of the two - still counts as within) */
        if (!(fabs(x - y) <= (fabs(x) > fabs(y) ? fabs(x) : fabs(y)) * ldexp(1.0, -52))) { snprintf(why, whylen, "number %.17g came back as %.17g", x, y); return 0; }
        return 1;
    }
    case cJSON_String:
    case cJSON_Raw:
        if (!a->valuestring || !b->valuestring || strcmp(a->valuestring, b->valuestring) != 0) { snprintf(why, whylen, "string differs"); return 0; }
        return 1;
    case cJSON_Array:
    case cJSON_Object:
        for (ca = a->child, cb = b->child; ca && cb; ca = ca->next, cb = cb->next)
            if (!tree_equiv(ca, cb, nonfinite_as_null, why, whylen)) return 0;
        if (ca || cb) { snprintf(why, whylen, "child count differs"); return 0; }
        return 1;
    default:
        return 1;
    }
}

/* ------------------------------------------------------------------------------------------ */
/* print battery: C04, C05 (text for the offline strict parser), C09                          */

static int canary_ok(const garena *g)
{
#if CJV_PLAIN
    /* bytes of the data pages outside [data, data+n) must still hold the 0x5A fill */
    const unsigned char *lo = g->map + 4096, *hi = g->map + g->maplen - 4096, *p;
    for (p = lo; p < g->data; p++) if (*p != 0x5A) return 0;
    for (p = g->data + g->n; p < hi; p++) if (*p != 0x5A) return 0;
#else
    (void)g;
#endif
    return 1;
}

static void prealloc_sweep(cJSON *s, int fmt, const char *text, long *first_ok, int light)
{
    size_t len = strlen(text);
    long n, maxn = (long)len + 16;
    int seen_true = 0;
    long extra[2];
    int xi;
    extra[0] = (long)len + 64; extra[1] = (long)len + 4096 + 3;
    *first_ok = -1;
    for (n = 0, xi = 0; ; n++) {
        int placement, nplace = CJV_PLAIN ? 2 : 1;
        /* long texts: every n near both ends, sampled in between (the sweep is quadratic otherwise) */
        if (len > 1500 && n > 48 && n < (long)len - 48) n = (long)len - 48;
        /* light mode (C04/C05 only need "same bytes"): a handful of lengths around the text length */
        if (light && n > 2 && n < (long)len - 1) n = (long)len - 1;
        if (light && n > (long)len + 7 && n <= maxn) n = maxn + 1;
        if (n > maxn) { if (xi >= 2) break; n = extra[xi++]; }
        for (placement = 0; placement < nplace; placement++) {
            garena g;
            char *buf = (char *)ga_make(&g, NULL, (size_t)n, placement ? GP_START : GP_END, 0);
            cJSON_bool ok;
            if (n) memset(buf, 0xEE, (size_t)n);
            LIB_BEGIN("cJSON_PrintPreallocated"); ok = cJSON_PrintPreallocated(s, buf, (int)n, fmt); LIB_END();
            if (!canary_ok(&g)) cjv_violation("prealloc/write-outside-buffer", "fmt=%d n=%ld len=%zu: bytes outside [0,n) were modified", fmt, n, len);
            if (ok) {
                if ((size_t)n < len + 1 || memcmp(buf, text, len + 1) != 0)
                    cjv_violation("prealloc/true-but-wrong", "fmt=%d n=%ld len=%zu: returned true but the buffer does not hold the complete text", fmt, n, len);
                if (placement == 0) { if (*first_ok < 0) *first_ok = n; seen_true = 1; }
            } else {
                if ((size_t)n >= len + 1 + 5) cjv_violation("prealloc/false-with-room", "fmt=%d n=%ld len=%zu: failed although n >= len+1+5", fmt, n, len);
                if (seen_true && placement == 0) cjv_violation("prealloc/non-monotone", "fmt=%d n=%ld len=%zu: failed after succeeding for a smaller n", fmt, n, len);
            }
            ga_release(&g);
        }
    }
}

void op_prbat(toks *t)
{
    cJSON *s;
    int mode, fmt;
    char *txt[2];
    long first_ok[2] = { -1, -1 };
    long live0 = led.live_blocks;
    if (t->n < 3) cjv_fatal("prbat s mode");
    s = tk_item(t->tok[1]);
    mode = (int)tk_int(t->tok[2]);   /* 1: non-finite numbers present (=> null); 2: skip reparse; 4: full prebuffer sweep; 8: light prealloc sweep */
    if (!s) { rlog("prbat -"); return; }
    txt[0] = lib_print(s, 0);
    txt[1] = lib_print(s, 1);
    if (!txt[0] || !txt[1]) {
        cjv_violation("print/null-result", "print returned NULL for a well-formed tree (%d%d)", !!txt[0], !!txt[1]);
        if (txt[0]) lib_free(txt[0]);
        if (txt[1]) lib_free(txt[1]);
        rlog("prbat nil");
        return;
    }
    /* buffered variants: every prebuffer size must give the same bytes */
    for (fmt = 0; fmt < 2; fmt++) {
        size_t len = strlen(txt[fmt]);
        long fixed[] = { 0, 1, 2, 3, 5, 8, 13, (long)len - 1, (long)len, (long)len + 1, (long)len + 2, 255, 256, 257, 4096 };
        size_t i, cnt = sizeof fixed / sizeof fixed[0];
        long p, full = ((mode & 4) || vm_thorough) && len <= 600 ? (long)len + 3 : 0;
        for (i = 0; i < cnt + (size_t)full; i++) {
            char *r;
            p = i < cnt ? fixed[i] : (long)(i - cnt);
            if (p < 0) continue;
            LIB_BEGIN("cJSON_PrintBuffered"); r = cJSON_PrintBuffered(s, (int)p, fmt); LIB_END();
            if (!r) { cjv_violation("print/buffered-null", "PrintBuffered(prebuffer=%ld, fmt=%d) returned NULL", p, fmt); continue; }
            if (strcmp(r, txt[fmt]) != 0) cjv_violation("print/buffered-differs", "PrintBuffered(prebuffer=%ld, fmt=%d) differs from the plain variant", p, fmt);
            lib_free(r);
        }
        prealloc_sweep(s, fmt, txt[fmt], &first_ok[fmt], (mode & 8) != 0);
    }
    {   /* cJSON_bool is an int: every non-zero format value means "formatted" */
        static const int fmts[] = { 2, 4, 256, -1, INT_MIN };
        size_t fi, len1 = strlen(txt[1]);
        for (fi = 0; fi < sizeof fmts / sizeof fmts[0]; fi++) {
            char *r;
            garena g;
            char *buf;
            cJSON_bool ok;
            LIB_BEGIN("cJSON_PrintBuffered"); r = cJSON_PrintBuffered(s, (int)(fi * 7), fmts[fi]); LIB_END();
            if (!r || strcmp(r, txt[1]) != 0) cjv_violation("print/buffered-differs", "PrintBuffered(fmt=%d) %s", fmts[fi], r ? "differs from Print" : "returned NULL");
            if (r) lib_free(r);
            buf = (char *)ga_make(&g, NULL, len1 + 8, GP_END, 0);
            LIB_BEGIN("cJSON_PrintPreallocated"); ok = cJSON_PrintPreallocated(s, buf, (int)(len1 + 8), fmts[fi]); LIB_END();
            if (!ok || memcmp(buf, txt[1], len1 + 1) != 0) cjv_violation("prealloc/differs", "PrintPreallocated(fmt=%d) %s", fmts[fi], ok ? "differs from Print" : "failed with room to spare");
            ga_release(&g);
        }
    }
    {   /* refusals of the caller-buffer variant */
        char tmp[8];
        cJSON_bool ok;
        LIB_BEGIN("cJSON_PrintPreallocated"); ok = cJSON_PrintPreallocated(s, tmp, -1, 0); LIB_END();
        if (ok) cjv_violation("prealloc/negative-length-accepted", "returned true for length -1");
        LIB_BEGIN("cJSON_PrintPreallocated"); ok = cJSON_PrintPreallocated(s, NULL, 64, 0); LIB_END();
        if (ok) cjv_violation("prealloc/null-buffer-accepted", "returned true for a NULL buffer");
    }
    if (!(mode & 2)) {
        /* round trip: parse(print(t)) ~ t ; print(parse(print(t))) == print(t) */
        for (fmt = 0; fmt < 2; fmt++) {
            cJSON *r2;
            char why[160];
            LIB_BEGIN("cJSON_ParseWithOpts"); r2 = cJSON_ParseWithOpts(txt[fmt], NULL, TRU(1)); LIB_END();
            if (!r2) { cjv_violation("roundtrip/reparse-null", "fmt=%d: printed text does not parse back", fmt); continue; }
            if (wf_check(r2, WF_ROOT, "reparse") == 0) {
                char *u2, *f2;
                int eqv;
                WALK_BEGIN(); eqv = tree_equiv(s, r2, mode & 1, why, sizeof why); WALK_END();
                if (!eqv) cjv_violation("roundtrip/value-differs", "fmt=%d: %s", fmt, why);
                u2 = lib_print(r2, 0); f2 = lib_print(r2, 1);
                if (!u2 || !f2) cjv_violation("print/null-result", "re-parsed tree failed to print");
                else {
                    if (strcmp(u2, txt[0]) != 0) cjv_violation("roundtrip/not-a-fixed-point", "fmt=%d: unformatted text of the re-parsed tree differs", fmt);
                    if (strcmp(f2, txt[1]) != 0) cjv_violation("roundtrip/not-a-fixed-point", "fmt=%d: formatted text of the re-parsed tree differs", fmt);
                }
                if (u2) lib_free(u2);
                if (f2) lib_free(f2);
            }
            lib_delete(r2);
        }
    }
    bb_reset(&outb);
    bb_puts(&outb, "u="); bb_hex(&outb, txt[0], strlen(txt[0]));
    bb_puts(&outb, " f="); bb_hex(&outb, txt[1], strlen(txt[1]));
    lib_free(txt[0]); lib_free(txt[1]);
    if (led.live_blocks != live0) cjv_violation("leak/print-battery", "%ld blocks remain after the print battery", led.live_blocks - live0);
    rlog("prbat ok0=%ld ok1=%ld %s", first_ok[0], first_ok[1], outb.p);
}

/* ------------------------------------------------------------------------------------------ */
/* minify: C13                                                                                */

void op_minify(toks *t)
{
    size_t n;
    unsigned char *b;
    int valid, placement, nplace = CJV_PLAIN ? 2 : 1;
    size_t outlen = 0;
    unsigned char *first = NULL;
    if (t->n < 3) cjv_fatal("minify bytes valid");
    b = tk_bytes(t->tok[1], &n);
    if (b == NULL) {     /* "~": a NULL string is documented as a no-op */
        LIB_BEGIN("cJSON_Minify"); cJSON_Minify(NULL); LIB_END();
        rlog("minify null");
        return;
    }
    valid = (int)tk_int(t->tok[2]);
    n = strlen((char *)b);
    for (placement = 0; placement < nplace; placement++) {
        garena g;
        unsigned char *buf = ga_make(&g, b, n + 1, placement ? GP_START : GP_END, 0);
        unsigned char *z;
        LIB_BEGIN("cJSON_Minify"); cJSON_Minify((char *)buf); LIB_END();
        z = memchr(buf, 0, n + 1);
        if (!z) cjv_violation("minify/unterminated", "no terminator within the original extent (n=%zu)", n);
        else {
            size_t l = (size_t)(z - buf);
            if (l > n) cjv_violation("minify/longer", "result longer than the original");
            if (placement == 0) { outlen = l; first = xmalloc(l + 1); memcpy(first, buf, l + 1); }
            else if (first && (l != outlen || memcmp(first, buf, l) != 0)) cjv_violation("minify/placement-dependent", "result depends on where the buffer lies");
        }
        if (!canary_ok(&g)) cjv_violation("minify/write-outside-buffer", "bytes outside [0,n] were modified (n=%zu)", n);
        ga_release(&g);
    }
    if (first) {
        cJSON *r = NULL;
        if (valid) {
            garena g;
            unsigned char *buf = ga_make(&g, first, outlen + 1, GP_END, 0);
            LIB_BEGIN("cJSON_Minify"); cJSON_Minify((char *)buf); LIB_END();
            if (strlen((char *)buf) != outlen || memcmp(buf, first, outlen) != 0) cjv_violation("minify/not-idempotent", "minifying the result changes it again");
            ga_release(&g);
            LIB_BEGIN("cJSON_ParseWithOpts"); r = cJSON_ParseWithOpts((char *)first, NULL, TRU(1)); LIB_END();
        }
        bb_reset(&outb); bb_hex(&outb, first, outlen);
        if (r) {
            bb_reset(&tn_a); tn_dump(&tn_a, r);
            rlog("minify n=%zu out==%s tn=%08x:%zu", n, outb.n ? (char *)outb.p : "", cjv_crc32(tn_a.p, tn_a.n), tn_a.n);
            lib_delete(r);
        } else rlog("minify n=%zu out==%s tn=nil", n, outb.n ? (char *)outb.p : "");
        xfree(first);
    } else rlog("minify n=%zu bad", n);
    xfree(b);
}

/* ------------------------------------------------------------------------------------------ */
/* duplicate: C11                                                                             */

typedef struct { const void **v; size_t n, cap; } pset;
static void ps_add(pset *s, const void *p)
{
    if (!p) return;
    if (s->n == s->cap) { s->cap = s->cap ? s->cap * 2 : 1024; s->v = xrealloc(s->v, s->cap * sizeof *s->v); }
    s->v[s->n++] = p;
}
static int ps_cmp(const void *a, const void *b)
{
    uintptr_t x = (uintptr_t)*(const void *const *)a, y = (uintptr_t)*(const void *const *)b;
    return x < y ? -1 : x > y;
}
static int ps_has(const pset *s, const void *p)
{
    const void *key = p;
    return p && s->n && bsearch(&key, s->v, s->n, sizeof *s->v, ps_cmp) != NULL;
}
static long collect_steps;
static void collect(pset *s, const cJSON *n, int include_const_keys)
{
    const cJSON *c;
    if (++collect_steps > 5000000) return;
    ps_add(s, n);
    ps_add(s, n->valuestring);
    if (n->string && (include_const_keys || !(n->type & cJSON_StringIsConst))) ps_add(s, n->string);
    for (c = n->child; c; c = c->next) collect(s, c, include_const_keys);   /* through references too */
}

static int dup_bad;
static void dup_compare(const cJSON *a, const cJSON *d, const pset *src)
{
    const cJSON *ca, *cd;
    if (dup_bad) return;
    if (++collect_steps > 5000000) return;
    if (ps_has(src, d)) { cjv_violation("dup/shared-node", "copy shares a node with the source or a referenced tree"); dup_bad = 1; return; }
    if (d->type & cJSON_IsReference) { cjv_violation("dup/reference-bit-survives", "copy contains a reference node"); dup_bad = 1; return; }
    if (d->valuestring && ps_has(src, d->valuestring)) { cjv_violation("dup/shared-valuestring", "copy shares a string with the source"); dup_bad = 1; return; }
    if (a->string) {
        if (a->type & cJSON_StringIsConst) {
            if (d->string != a->string || !(d->type & cJSON_StringIsConst)) { cjv_violation("dup/const-key-not-shared", "constant key was not carried over as the same constant pointer"); dup_bad = 1; return; }
        } else if (d->string == NULL || d->string == a->string || ps_has(src, d->string)) { cjv_violation("dup/shared-key", "copy shares (or lacks) an owned key"); dup_bad = 1; return; }
    } else if (d->string) { cjv_violation("dup/spurious-key", "copy has a key the source lacks"); dup_bad = 1; return; }
    for (ca = a->child, cd = d->child; ca && cd; ca = ca->next, cd = cd->next) dup_compare(ca, cd, src);
    if (!dup_bad && (ca || cd)) { cjv_violation("dup/shape", "copy has a different number of children"); dup_bad = 1; }
}

void op_dupx(toks *t)
{
    /* dupx d s mode : mode&1 => numbers may be non-finite (skip Compare) */
    cJSON *s, *d;
    int mode;
    pset src = { NULL, 0, 0 };
    if (t->n < 4) cjv_fatal("dupx d s mode");
    s = tk_item(t->tok[2]);
    mode = (int)tk_int(t->tok[3]);
    bb_reset(&tn_a); tn_dump(&tn_a, s);
    LIB_BEGIN("cJSON_Duplicate"); d = cJSON_Duplicate(s, TRU(1)); LIB_END();
    slot[tk_slot(t->tok[1])] = d;
    bb_reset(&tn_b); tn_dump(&tn_b, s);
    if (tn_a.n != tn_b.n || memcmp(tn_a.p, tn_b.p, tn_a.n) != 0) cjv_violation("dup/source-modified", "Duplicate changed its source");
    if (!d) { rlog("dupx nil"); return; }
    if (wf_check(d, WF_ROOT, "duplicate") == 0 && s) {
        collect_steps = 0;
        WALK_BEGIN();
        collect(&src, s, 0);
        qsort(src.v, src.n, sizeof *src.v, ps_cmp);
        dup_bad = 0; collect_steps = 0;
        dup_compare(s, d, &src);
        WALK_END();
        if (!dup_bad) {
            char *a = lib_print(s, 0), *b = lib_print(d, 0);
            if (a && b && strcmp(a, b) != 0) cjv_violation("dup/text-differs", "copy prints differently from the source");
            if ((a == NULL) != (b == NULL)) cjv_violation("dup/text-differs", "only one of source and copy prints");
            if (a) lib_free(a);
            if (b) lib_free(b);
            if (!(mode & 1)) {
                cJSON_bool e1, e2;
                LIB_BEGIN("cJSON_Compare"); e1 = cJSON_Compare(s, d, TRU(1)); e2 = cJSON_Compare(d, s, 0); LIB_END();
                if (!e1 || !e2) cjv_violation("dup/compare-unequal", "copy does not compare equal to its source (%d%d)", e1, e2);
            }
        }
        xfree(src.v);
    }
    rlog("dupx p");
}

/* ------------------------------------------------------------------------------------------ */
/* compare: C12 (symmetry + purity in-process, truth value to the offline oracle)             */

void op_cmpx(toks *t)
{
    cJSON *a, *b;
    int cs;
    cJSON_bool r1, r2;
    uint32_t ca, cb;
    size_t la, lb;
    if (t->n < 4) cjv_fatal("cmpx a b cs");
    a = tk_item(t->tok[1]); b = tk_item(t->tok[2]); cs = (int)tk_int(t->tok[3]);
    bb_reset(&tn_a); tn_dump(&tn_a, a); ca = cjv_crc32(tn_a.p, tn_a.n); la = tn_a.n;
    bb_reset(&tn_b); tn_dump(&tn_b, b); cb = cjv_crc32(tn_b.p, tn_b.n); lb = tn_b.n;
    LIB_BEGIN("cJSON_Compare"); r1 = cJSON_Compare(a, b, TRU(cs)); LIB_END();
    LIB_BEGIN("cJSON_Compare"); r2 = cJSON_Compare(b, a, TRU(cs)); LIB_END();
    bb_reset(&tn_a); tn_dump(&tn_a, a);
    bb_reset(&tn_b); tn_dump(&tn_b, b);
    if (cjv_crc32(tn_a.p, tn_a.n) != ca || tn_a.n != la || cjv_crc32(tn_b.p, tn_b.n) != cb || tn_b.n != lb)
        cjv_violation("compare/modified-argument", "Compare changed one of its arguments");
    if (!!r1 != !!r2) cjv_violation("compare/asymmetric", "Compare(a,b)=%d but Compare(b,a)=%d", r1, r2);
    rlog("cmpx %d %d", r1 ? 1 : 0, r2 ? 1 : 0);
}

/* ------------------------------------------------------------------------------------------ */
/* deep chains and stack-measured calls: C11, C03                                             */

void op_deepchain(toks *t)
{
    /* deepchain d kind depth [elder] : depth nested containers built through the public API; with
     * elder=1 every level holds a scalar in front of the nested container (the deep branch is then
     * never the first child) */
    cJSON *cur = NULL;
    long depth, i;
    int obj, elder;
    if (t->n < 4) cjv_fatal("deepchain d kind depth");
    obj = t->tok[2][0] == 'o';
    depth = tk_int(t->tok[3]);
    elder = t->n > 4 ? (int)tk_int(t->tok[4]) : 0;
    if (t->n > 5) { const char *lp = t->tok[5]; cur = tn_build(&lp); depth--; }   /* innermost value given as TN */
    for (i = 0; i < depth; i++) {
        cJSON *outer;
        if (obj) { LIB_BEGIN("cJSON_CreateObject"); outer = cJSON_CreateObject(); LIB_END(); }
        else { LIB_BEGIN("cJSON_CreateArray"); outer = cJSON_CreateArray(); LIB_END(); }
        if (!outer) cjv_fatal("create failed in deepchain");
        if (cur && elder) {
            cJSON *e;
            LIB_BEGIN("cJSON_CreateString"); e = cJSON_CreateString("elder"); LIB_END();
            if (obj) { LIB_BEGIN("cJSON_AddItemToObject"); cJSON_AddItemToObject(outer, "e", e); LIB_END(); }
            else { LIB_BEGIN("cJSON_AddItemToArray"); cJSON_AddItemToArray(outer, e); LIB_END(); }
        }
        if (cur) {
            cJSON_bool ok;
            if (obj) { LIB_BEGIN("cJSON_AddItemToObject"); ok = cJSON_AddItemToObject(outer, "k", cur); LIB_END(); }
            else { LIB_BEGIN("cJSON_AddItemToArray"); ok = cJSON_AddItemToArray(outer, cur); LIB_END(); }
            if (!ok) cjv_violation("build/add-failed", "add failed while building a chain");
        }
        cur = outer;
    }
    slot[tk_slot(t->tok[1])] = cur;
    rlog(cur ? "p" : "nil");
}

typedef struct { int what; cJSON *a, *b, *r; int flag; char *text; } sop_arg;
static void sop_fn(void *p_)
{
    sop_arg *p = p_;
    switch (p->what) {
    case 0: LIB_BEGIN("cJSON_Duplicate"); p->r = cJSON_Duplicate(p->a, TRU(1)); LIB_END(); break;
    case 1: LIB_BEGIN("cJSON_Delete"); cJSON_Delete(p->a); LIB_END(); break;
    case 2: p->text = lib_print(p->a, p->flag); break;
    case 3: LIB_BEGIN("cJSON_Compare"); p->flag = cJSON_Compare(p->a, p->b, TRU(1)); LIB_END(); break;
    case 4:
        if (p->flag) { LIB_BEGIN("cJSONUtils_SortObjectCaseSensitive"); cJSONUtils_SortObjectCaseSensitive(p->a); LIB_END(); }
        else { LIB_BEGIN("cJSONUtils_SortObject"); cJSONUtils_SortObject(p->a); LIB_END(); }
        break;
    default: break;
    }
}

void op_stackop(toks *t)
{
    /* stackop dup d s | stackop del s | stackop print s fmt | stackop cmp a b | stackop sort s cs */
    sop_arg a;
    size_t used;
    const char *w;
    if (t->n < 3) cjv_fatal("stackop what args");
    w = t->tok[1];
    memset(&a, 0, sizeof a);
    if (!strcmp(w, "dup")) {
        uint32_t ser = led_serial();
        if (t->n < 4) cjv_fatal("stackop dup d s");
        a.what = 0; a.a = tk_item(t->tok[3]);
        used = stack_run(sop_fn, &a);
        slot[tk_slot(t->tok[2])] = a.r;
        rlog("stackop dup %s used=%zu live_since=%ld", a.r ? "p" : "nil", used, a.r ? 0L : led_live_since(ser));
    } else if (!strcmp(w, "del")) {
        int s = tk_slot(t->tok[2]);
        a.what = 1; a.a = s < 0 ? NULL : slot[s];
        used = stack_run(sop_fn, &a);
        if (s >= 0) slot[s] = NULL;
        rlog("stackop del used=%zu", used);
    } else if (!strcmp(w, "print")) {
        a.what = 2; a.a = tk_item(t->tok[2]); a.flag = t->n > 3 ? (int)tk_int(t->tok[3]) : 0;
        used = stack_run(sop_fn, &a);
        rlog("stackop print %s used=%zu", a.text ? "p" : "nil", used);
        if (a.text) lib_free(a.text);
    } else if (!strcmp(w, "cmp")) {
        if (t->n < 4) cjv_fatal("stackop cmp a b");
        a.what = 3; a.a = tk_item(t->tok[2]); a.b = tk_item(t->tok[3]);
        used = stack_run(sop_fn, &a);
        rlog("stackop cmp %d used=%zu", a.flag, used);
    } else if (!strcmp(w, "sort")) {
        if (t->n < 4) cjv_fatal("stackop sort s cs");
        a.what = 4; a.a = tk_item(t->tok[2]); a.flag = (int)tk_int(t->tok[3]);
        used = stack_run(sop_fn, &a);
        rlog("stackop sort used=%zu", used);
    } else cjv_fatal("unknown stackop %s", w);
}
