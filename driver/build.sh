#!/bin/sh
# build.sh <flavour> <outdir> [repo] - compile the real library sources from the tree under test
# together with the monitor driver.  Flavours: asan plain msan tsan cov
set -e
FL=$1; OUT=$2; R=${3:-${VERIF_REPO:-/repo}}
D=$(cd "$(dirname "$0")" && pwd)
mkdir -p "$OUT"
WRAP="-Wl,--wrap=malloc,--wrap=calloc,--wrap=realloc,--wrap=free"
DEFS="-DENABLE_LOCALES -DCJSON_VERIF_HOOKS"
case $FL in
  asan)  CC=gcc;   CF="-O1 -g -fno-omit-frame-pointer -fsanitize=address,undefined -fno-sanitize-recover=all" ;;
  plain) CC=gcc;   CF="-O2 -g -fno-omit-frame-pointer" ;;
  efence) CC=gcc;  CF="-O2 -g -fno-omit-frame-pointer -DCJV_EFENCE=1" ;;
  cov)   CC=gcc;   CF="-O0 -g --coverage" ;;
  msan)  CC=clang; CF="-O1 -g -fno-omit-frame-pointer -fsanitize=memory -fsanitize-memory-track-origins" ;;
  tsan)  CC=gcc;   CF="-O1 -g -fno-omit-frame-pointer -fsanitize=thread" ;;
  fuzz)  CC=clang; CF="-O1 -g -fno-omit-frame-pointer -fsanitize=fuzzer-no-link,address,undefined -fno-sanitize=pointer-overflow,float-cast-overflow -fno-sanitize-recover=all" ;;
  *) echo "unknown flavour $FL" >&2; exit 2 ;;
esac
$CC $CF $DEFS -I"$R" -c "$R/cJSON.c" -o "$OUT/$FL-cJSON.o" &
$CC $CF $DEFS -I"$R" -c "$R/cJSON_Utils.c" -o "$OUT/$FL-cJSON_Utils.o" &
wait
if [ "$FL" = fuzz ]; then
  $CC -O1 -g -fno-omit-frame-pointer -fsanitize=fuzzer,address,undefined -fno-sanitize=pointer-overflow,float-cast-overflow -fno-sanitize-recover=all -I"$R" -I"$D" "$D/cjv_fuzz.c" "$OUT/$FL-cJSON.o" "$OUT/$FL-cJSON_Utils.o" -lm -o "$OUT/cjv_$FL"
elif [ "$FL" = tsan ]; then
  $CC $CF -I"$R" -I"$D" "$D/cjv_tsan.c" "$D/cjv_gen.c" "$OUT/$FL-cJSON.o" "$OUT/$FL-cJSON_Utils.o" -lm -lpthread -o "$OUT/cjv_$FL"
else
  $CC $CF -I"$R" -I"$D" "$D/cjv_mon.c" "$D/cjv_vm.c" "$D/cjv_bat.c" "$OUT/$FL-cJSON.o" "$OUT/$FL-cJSON_Utils.o" $WRAP -lm -lpthread -o "$OUT/cjv_$FL"
fi
