/* cjv_mon.c - monitors: ledger allocator + libc interposition, guard-page arenas, borrowed
 * arena, signal handlers, painted stack, structural walker, TN dump/build. */
#define _GNU_SOURCE
#include <stdarg.h>
#include <stdlib.h>
#include <string.h>
#include <signal.h>
#include <unistd.h>
#include <errno.h>
#include <pthread.h>
#include <sys/mman.h>
#include <ucontext.h>
#include "cjv.h"

FILE *cjv_log;
long cjv_case_id = -1;
long cjv_op_idx = -1;
const char *cjv_cur_call;
volatile int cjv_in_lib;
int cjv_errno_preset;
int cjv_truthy(void)
{
    static const int v[8] = { 1, 2, 1, -1, 1, 256, 1, 0x40000000 };
    return v[(unsigned long)(cjv_case_id * 3 + cjv_op_idx) % 8];
}
volatile int cjv_walking;
long cjv_violations;

#define PAGE 4096UL

/* ------------------------------------------------------------------------------------------ */
/* logging                                                                                    */

void cjv_violation(const char *key, const char *fmt, ...)
{
    va_list ap;
    int was = cjv_in_lib;
    cjv_in_lib = 0;
    cjv_violations++;
    fprintf(cjv_log, "V %ld %ld %s call=%s ", cjv_case_id, cjv_op_idx, key, cjv_cur_call ? cjv_cur_call : "-");
    va_start(ap, fmt);
    vfprintf(cjv_log, fmt, ap);
    va_end(ap);
    fputc('\n', cjv_log);
    cjv_in_lib = was;
}

void cjv_fatal(const char *fmt, ...)
{
    va_list ap;
    cjv_in_lib = 0;
    if (cjv_log) fflush(cjv_log);
    fprintf(stderr, "cjv: HARNESS FAILURE (case %ld op %ld): ", cjv_case_id, cjv_op_idx);
    va_start(ap, fmt);
    vfprintf(stderr, fmt, ap);
    va_end(ap);
    fputc('\n', stderr);
    if (cjv_log) { fprintf(cjv_log, "H %ld %ld harness-failure\n", cjv_case_id, cjv_op_idx); fflush(cjv_log); }
    _exit(2);
}

void *xmalloc(size_t n)
{
    void *p = __real_malloc(n ? n : 1);
    if (!p) cjv_fatal("out of memory (%zu)", n);
    return p;
}
void *xrealloc(void *p, size_t n)
{
    void *q = __real_realloc(p, n ? n : 1);
    if (!q) cjv_fatal("out of memory (%zu)", n);
    return q;
}
void xfree(void *p) { __real_free(p); }

void bb_reset(bbuf *b) { b->n = 0; }
static void bb_need(bbuf *b, size_t extra)
{
    if (b->n + extra + 1 > b->cap) {
        size_t nc = b->cap ? b->cap * 2 : 256;
        while (nc < b->n + extra + 1) nc *= 2;
        b->p = xrealloc(b->p, nc);
        b->cap = nc;
    }
}
void bb_put(bbuf *b, const void *d, size_t n) { bb_need(b, n); if (n) memcpy(b->p + b->n, d, n); b->n += n; b->p[b->n] = 0; }
void bb_putc(bbuf *b, int c) { bb_need(b, 1); b->p[b->n++] = (unsigned char)c; b->p[b->n] = 0; }
void bb_puts(bbuf *b, const char *s) { bb_put(b, s, strlen(s)); }
void bb_hex(bbuf *b, const void *d, size_t n)
{
    static const char hx[] = "0123456789abcdef";
    const unsigned char *s = d;
    size_t i;
    bb_need(b, 2 * n);
    for (i = 0; i < n; i++) { b->p[b->n++] = (unsigned char)hx[s[i] >> 4]; b->p[b->n++] = (unsigned char)hx[s[i] & 15]; }
    b->p[b->n] = 0;
}
void bb_printf(bbuf *b, const char *fmt, ...)
{
    char tmp[256];
    va_list ap;
    int k;
    va_start(ap, fmt);
    k = vsnprintf(tmp, sizeof tmp, fmt, ap);
    va_end(ap);
    if (k < 0) return;
    if ((size_t)k >= sizeof tmp) k = (int)sizeof tmp - 1;
    bb_put(b, tmp, (size_t)k);
}
void bb_free(bbuf *b) { xfree(b->p); b->p = NULL; b->n = b->cap = 0; }

uint32_t cjv_crc32(const void *d, size_t n)
{
    static uint32_t tab[256];
    static int init;
    const unsigned char *s = d;
    uint32_t c = 0xFFFFFFFFu;
    size_t i;
    if (!init) {
        uint32_t k, j;
        for (k = 0; k < 256; k++) { uint32_t v = k; for (j = 0; j < 8; j++) v = (v & 1) ? (0xEDB88320u ^ (v >> 1)) : (v >> 1); tab[k] = v; }
        init = 1;
    }
    for (i = 0; i < n; i++) c = tab[(c ^ s[i]) & 0xFF] ^ (c >> 8);
    return c ^ 0xFFFFFFFFu;
}

/* ------------------------------------------------------------------------------------------ */
/* ledger                                                                                     */

#define LED_BITS 19
#define LED_CAP  (1u << LED_BITS)
#define TAILMAGIC 0xC5A1E7D00DF00D5AULL

typedef struct {
    void *p;
    size_t size;
    uint32_t serial;
    uint32_t gen;       /* case generation this entry belongs to */
    uint32_t mark;      /* walk id */
    uint8_t origin;
    uint8_t state;      /* 1 live, 2 freed */
    uint8_t efence;     /* block lives in its own guard-paged mapping */
} lent;

static lent *ltab;
static uint32_t lgen = 1;
static uint32_t lserial;
static long lentries;
led_stats led;
int led_expect_origin;

static long arm_k = -1;       /* -1 disarmed, 0 count only, >0 fail that request */
static long arm_seen;
static int arm_fired;

#ifndef CJV_EFENCE
#define CJV_EFENCE 0
#endif
#define EF_MAX 12000
static long ef_live;
#if CJV_ASAN
void __asan_poison_memory_region(void const volatile *addr, size_t size);
void __asan_unpoison_memory_region(void const volatile *addr, size_t size);
#endif

/* quarantine (plain flavour) */
static uint32_t *quar;
static size_t quar_n, quar_cap;

/* own arena for ORG_ARENA */
static unsigned char *arena_base;
static size_t arena_len = 256UL << 20, arena_off;

static inline uint32_t lhash(const void *p)
{
    uint64_t x = (uint64_t)(uintptr_t)p;
    x ^= x >> 33; x *= 0xff51afd7ed558ccdULL; x ^= x >> 29;
    return (uint32_t)x & (LED_CAP - 1);
}

void led_init(void)
{
    ltab = mmap(NULL, sizeof(lent) * LED_CAP, PROT_READ | PROT_WRITE, MAP_PRIVATE | MAP_ANONYMOUS, -1, 0);
    if (ltab == MAP_FAILED) cjv_fatal("mmap ledger");
    arena_base = mmap(NULL, arena_len, PROT_READ | PROT_WRITE, MAP_PRIVATE | MAP_ANONYMOUS | MAP_NORESERVE, -1, 0);
    if (arena_base == MAP_FAILED) cjv_fatal("mmap arena");
}

static lent *lfind(const void *p, int for_insert)
{
    uint32_t h = lhash(p), i;
    lent *freeslot = NULL;
    for (i = 0; i < LED_CAP; i++) {
        lent *e = &ltab[(h + i) & (LED_CAP - 1)];
        if (e->gen != lgen) {            /* empty (stale generation) */
            if (for_insert) return freeslot ? freeslot : e;
            return NULL;
        }
        if (e->p == p) return e;
    }
    if (for_insert && freeslot) return freeslot;
    cjv_fatal("ledger table full");
}

void led_case_begin(void)
{
    lgen++;
    lentries = 0;
    lserial = 0;
    memset(&led, 0, sizeof led);
    quar_n = 0;
    arena_off = 0;
    arm_k = -1; arm_seen = 0; arm_fired = 0;
}

static void release_block(lent *e)
{
    if (e->origin == ORG_ARENA) return;       /* bump arena, reset per case */
    e->state = 0;                             /* memory handed back: nothing of ours to look at any more */
    __real_free(e->p);
}

void led_case_end(void)
{
    size_t i;
    /* verify poison + canaries of quarantined blocks, then really free them */
    for (i = 0; i < quar_n; i++) {
        lent *e = &ltab[quar[i]];
#if CJV_PLAIN
        size_t j;
        const unsigned char *b = e->p;
        if (e->efence) {
            size_t pages = (e->size + PAGE - 1) / PAGE;
            if (pages == 0) pages = 1;
            munmap((unsigned char *)e->p + e->size - pages * PAGE, (pages + 1) * PAGE);
            ef_live--;
            continue;
        }
        for (j = 0; j < e->size; j++) {
            if (b[j] != 0xDD) {
                cjv_violation("ledger/write-after-free", "block serial=%u size=%zu offset=%zu byte=%02x", e->serial, e->size, j, b[j]);
                break;
            }
        }
        {
            uint64_t t;
            memcpy(&t, b + e->size, 8);
            if (t != TAILMAGIC) cjv_violation("ledger/tail-canary", "block serial=%u size=%zu (after free)", e->serial, e->size);
        }
#endif
        release_block(e);
    }
    quar_n = 0;
}

static void *led_alloc(size_t n, int origin, int is_realloc)
{
    void *p;
    lent *e;
    int efence_block = 0;
    (void)is_realloc;
    if (cjv_in_lib && n > ((size_t)1 << 40)) {
        /* no input the driver produces justifies a terabyte: a size computation went wrong */
        cjv_violation("ledger/absurd-request", "allocation request of %zu bytes", n);
        return NULL;
    }
    if (cjv_in_lib) {
        led.requests++;
        if (arm_k >= 0) {
            arm_seen++;
            if (arm_k > 0 && arm_seen == arm_k) { arm_fired = 1; led.fail_fired++; return NULL; }
        }
        if (led_expect_origin && origin != led_expect_origin)
            cjv_violation("hooks/wrong-allocator", "allocation of %zu bytes came through origin %d, expected %d", n, origin, led_expect_origin);
    }
    if (origin == ORG_ARENA) {
        size_t need = (n + 8 + 15) & ~(size_t)15;
        if (arena_off + need + 16 > arena_len) cjv_fatal("arena exhausted");
        p = arena_base + arena_off + 16;      /* 16 bytes of slack so that blocks never abut */
        arena_off += need + 16;
    } else {
#if CJV_EFENCE
        if (ef_live < EF_MAX) {
            /* electric-fence placement: the block ends exactly at a PROT_NONE page, so a one-byte
             * over-read or over-write of ANY library-owned block faults (also blocks of size 0) */
            size_t pages = (n + PAGE - 1) / PAGE;
            unsigned char *map;
            if (pages == 0) pages = 1;
            map = mmap(NULL, (pages + 1) * PAGE, PROT_READ | PROT_WRITE, MAP_PRIVATE | MAP_ANONYMOUS, -1, 0);
            if (map == MAP_FAILED) cjv_fatal("mmap efence block");
            mprotect(map + pages * PAGE, PAGE, PROT_NONE);
            memset(map, 0xCD, pages * PAGE);
            p = map + pages * PAGE - n;
            ef_live++;
            efence_block = 1;
        } else
#endif
        {
#if CJV_PLAIN
        p = __real_malloc(n + 8);
#else
        p = __real_malloc(n ? n : 1);
#endif
        if (!p) cjv_fatal("real malloc failed (%zu)", n);
        }
    }
#if CJV_EFENCE
    if (!efence_block)
#endif
    {
#if CJV_PLAIN
    memset(p, 0xCD, n);
    { uint64_t t = TAILMAGIC; memcpy((unsigned char *)p + n, &t, 8); }
#else
    if (origin == ORG_ARENA) { uint64_t t = TAILMAGIC; memcpy((unsigned char *)p + n, &t, 8); }
#if CJV_ASAN
    else if (n == 0) __asan_poison_memory_region(p, 1);     /* ASan rounds malloc(0) up to one byte: take it away again */
#endif
#endif
    }
    e = lfind(p, 1);
    if (e->gen == lgen && e->state == 1) cjv_fatal("allocator returned a live block twice");
    if (e->gen != lgen) {
        if (++lentries > (long)(LED_CAP * 3 / 4)) {
            if (cjv_in_lib) {
                /* one case never holds anywhere near this many blocks: a library call that keeps
                 * allocating is a runaway (e.g. a loop that no longer advances), the same class as a hang */
                char line[300];
                cjv_in_lib = 0;
                fflush(cjv_log);
                snprintf(line, sizeof line, "V %ld %ld runaway-allocation call=%s (%ld blocks requested within one case)\nX %ld %ld died\n",
                         cjv_case_id, cjv_op_idx, cjv_cur_call ? cjv_cur_call : "-", lentries, cjv_case_id, cjv_op_idx);
                { ssize_t r = write(fileno(cjv_log), line, strlen(line)); (void)r; }
                _exit(3);
            }
            cjv_fatal("ledger table too full");
        }
    }
    e->p = p; e->size = n; e->serial = ++lserial; e->gen = lgen; e->mark = 0; e->origin = (uint8_t)origin; e->state = 1; e->efence = (uint8_t)efence_block;
    led.live_blocks++; led.live_bytes += (long)n;
    if (led.live_blocks > led.peak_blocks) led.peak_blocks = led.live_blocks;
    return p;
}

static void led_release(void *p, int origin)
{
    lent *e;
    if (p == NULL) { led.free_null++; return; }
    led.frees++;
    e = lfind(p, 0);
    if (e == NULL) {
        led.bad_free++;
        if (bor_contains(p)) cjv_violation("ledger/free-of-borrowed", "borrowed memory %p handed to the release function", p);
        else cjv_violation("ledger/foreign-free", "pointer %p was never returned by the allocation function (interior or foreign)", p);
        return;
    }
    if (e->state != 1) {
        led.bad_free++;
        cjv_violation("ledger/double-free", "block serial=%u size=%zu released twice", e->serial, e->size);
        return;
    }
    if (e->origin != origin) {
        led.bad_free++;
        cjv_violation("hooks/cross-free", "block serial=%u obtained through origin %d released through origin %d", e->serial, e->origin, origin);
        /* fall through: account it as released */
    }
#if CJV_PLAIN
    if (!e->efence) {
        uint64_t t;
        memcpy(&t, (unsigned char *)p + e->size, 8);
        if (t != TAILMAGIC) cjv_violation("ledger/tail-canary", "block serial=%u size=%zu overrun detected at free", e->serial, e->size);
    } else {
        /* bytes in front of the block still hold the fill pattern? (under-run) */
        size_t pages = (e->size + PAGE - 1) / PAGE;
        unsigned char *map, *q;
        if (pages == 0) pages = 1;
        map = (unsigned char *)p + e->size - pages * PAGE;
        for (q = map; q < (unsigned char *)p; q++) if (*q != 0xCD) { cjv_violation("ledger/under-run", "block serial=%u size=%zu: byte %ld before the block was modified", e->serial, e->size, (long)((unsigned char *)p - q)); break; }
        mprotect(map, pages * PAGE, PROT_NONE);       /* any later access faults: use-after-free */
    }
#endif
    e->state = 2;
    led.live_blocks--; led.live_bytes -= (long)e->size;
#if CJV_PLAIN
    if (!e->efence) memset(p, 0xDD, e->size);
    if (quar_n == quar_cap) { quar_cap = quar_cap ? quar_cap * 2 : 4096; quar = xrealloc(quar, quar_cap * sizeof *quar); }
    quar[quar_n++] = (uint32_t)(e - ltab);
#else
#if CJV_ASAN
    if (e->size == 0 && e->origin != ORG_ARENA) __asan_unpoison_memory_region(p, 1);
#endif
    if (e->origin != ORG_ARENA) __real_free(p);   /* sanitizer quarantine takes over */
#endif
}

void *led_hook_malloc(size_t n) { if (cjv_in_lib) led.hook_malloc++; return led_alloc(n, ORG_HOOK, 0); }
void  led_hook_free(void *p)    { if (cjv_in_lib) led.hook_free++; led_release(p, ORG_HOOK); }
void *led_arena_malloc(size_t n){ if (cjv_in_lib) led.hook_malloc++; return led_alloc(n, ORG_ARENA, 0); }
void  led_arena_free(void *p)   { if (cjv_in_lib) led.hook_free++; led_release(p, ORG_ARENA); }
void *led_hook_malloc_libc(size_t n) { if (cjv_in_lib) led.hook_malloc++; return led_alloc(n, ORG_LIBC, 0); }
void  led_hook_free_libc(void *p)    { if (cjv_in_lib) led.hook_free++; led_release(p, ORG_LIBC); }

/* libc interposition: only the library objects' references reach these (the driver uses
 * __real_* through xmalloc); a call with cjv_in_lib == 0 is a harness bug. */
void *__wrap_malloc(size_t n)
{
    if (!cjv_in_lib) return __real_malloc(n);     /* e.g. libc start-up paths in sanitizer builds */
    led.wrap_malloc++;
    return led_alloc(n, ORG_LIBC, 0);
}
void *__wrap_calloc(size_t a, size_t b)
{
    void *p;
    if (!cjv_in_lib) return __real_calloc(a, b);
    led.wrap_calloc++;
    p = led_alloc(a * b, ORG_LIBC, 0);
    if (p) memset(p, 0, a * b);
    return p;
}
void __wrap_free(void *p)
{
    if (!cjv_in_lib) { __real_free(p); return; }
    led.wrap_free++;
    led_release(p, ORG_LIBC);
}
void *__wrap_realloc(void *p, size_t n)
{
    lent *e;
    void *q;
    size_t keep;
    if (!cjv_in_lib) return __real_realloc(p, n);
    led.wrap_realloc++;
    if (p == NULL) return led_alloc(n, ORG_LIBC, 1);
    e = lfind(p, 0);
    if (e == NULL || e->state != 1) {
        led.bad_free++;
        cjv_violation(e ? "ledger/realloc-of-freed" : "ledger/realloc-of-foreign", "realloc(%p, %zu)", p, n);
        return NULL;
    }
    if (e->origin != ORG_LIBC) cjv_violation("hooks/cross-free", "realloc of block serial=%u obtained through origin %d", e->serial, e->origin);
    keep = e->size < n ? e->size : n;
    q = led_alloc(n, ORG_LIBC, 1);      /* always moves: stale pointers into the old block become visible */
    if (q == NULL) return NULL;          /* failpoint: old block stays valid, as realloc promises */
    memcpy(q, p, keep);
    led.frees--;                         /* the release half of a realloc is not a user-visible free */
    led_release(p, ORG_LIBC);
    return q;
}

uint32_t led_serial(void) { return lserial; }

long led_live_since(uint32_t serial)
{
    long n = 0;
    uint32_t i;
    if (lserial == serial) return 0;
    for (i = 0; i < LED_CAP; i++) if (ltab[i].gen == lgen && ltab[i].state == 1 && ltab[i].serial > serial) n++;
    return n;
}

int led_lookup(const void *p, size_t *size, int *origin)
{
    lent *e = lfind(p, 0);
    if (!e) return 0;
    if (size) *size = e->size;
    if (origin) *origin = e->origin;
    return e->state == 1 ? 1 : -1;
}

int led_mark(const void *p, uint32_t walk_id)
{
    lent *e = lfind(p, 0);
    if (!e || e->state != 1) return -1;
    if (e->mark == walk_id) return 0;
    e->mark = walk_id;
    return 1;
}

void led_arm_fail(long k) { arm_k = k; arm_seen = 0; arm_fired = 0; }
long led_armed_requests(void) { return arm_seen; }
int  led_armed_fired(void) { return arm_fired; }
void led_disarm(void) { arm_k = -1; }
int  led_fault_mode(void) { return arm_k > 0; }

/* ------------------------------------------------------------------------------------------ */
/* guard-page arenas                                                                          */

#define MAXG 64
static garena *live_g[MAXG];

static void g_register(garena *g)
{
    int i;
    for (i = 0; i < MAXG; i++) if (!live_g[i]) { live_g[i] = g; return; }
    cjv_fatal("too many guard arenas");
}
static void g_unregister(garena *g)
{
    int i;
    for (i = 0; i < MAXG; i++) if (live_g[i] == g) live_g[i] = NULL;
}

unsigned char *ga_make(garena *g, const void *src, size_t n, int placement, int readonly)
{
    memset(g, 0, sizeof *g);
    g->n = n; g->placement = placement; g->ro = readonly;
#if CJV_PLAIN
    {
        size_t pages = (n + PAGE - 1) / PAGE;
        if (pages == 0) pages = 1;
        g->maplen = (pages + 2) * PAGE;
        g->map = mmap(NULL, g->maplen, PROT_READ | PROT_WRITE, MAP_PRIVATE | MAP_ANONYMOUS, -1, 0);
        if (g->map == MAP_FAILED) cjv_fatal("mmap guard arena");
        /* both neighbours are PROT_NONE; the data touches one of them exactly */
        mprotect(g->map, PAGE, PROT_NONE);
        mprotect(g->map + (pages + 1) * PAGE, PAGE, PROT_NONE);
        memset(g->map + PAGE, 0x5A, pages * PAGE);
        if (placement == GP_END) g->data = g->map + (pages + 1) * PAGE - n;
        else g->data = g->map + PAGE;
        if (n && src) memcpy(g->data, src, n);
        if (readonly) mprotect(g->map + PAGE, pages * PAGE, PROT_READ);
        g_register(g);
    }
#else
    g->data = __real_malloc(n);          /* exact size: sanitizer red zones on both sides */
    if (!g->data && n) cjv_fatal("malloc");
    if (n && src) memcpy(g->data, src, n);
    g->map = g->data;
#endif
    return g->data;
}

void ga_release(garena *g)
{
    if (!g->map) return;
#if CJV_PLAIN
    g_unregister(g);
    munmap(g->map, g->maplen);
#else
    __real_free(g->map);
#endif
    g->map = NULL; g->data = NULL;
}

/* borrowed arena: 1 MiB, guard pages around it, read-only except while the driver fills it */
static unsigned char *bor_map;
#define BOR_LEN (1UL << 20)
static size_t bor_off;

static void bor_init(void)
{
    if (bor_map) return;
    bor_map = mmap(NULL, BOR_LEN + 2 * PAGE, PROT_NONE, MAP_PRIVATE | MAP_ANONYMOUS, -1, 0);
    if (bor_map == MAP_FAILED) cjv_fatal("mmap borrowed arena");
    mprotect(bor_map + PAGE, BOR_LEN, PROT_READ);
}
void bor_reset(void) { bor_init(); bor_off = 0; }
const char *bor_add(const void *src, size_t n)
{
    unsigned char *dst;
    bor_init();
    if (bor_off + n + 8 > BOR_LEN) cjv_fatal("borrowed arena exhausted");
    dst = bor_map + PAGE + bor_off;
    mprotect(bor_map + PAGE, BOR_LEN, PROT_READ | PROT_WRITE);
    memcpy(dst, src, n);
    mprotect(bor_map + PAGE, BOR_LEN, PROT_READ);
    bor_off += (n + 8) & ~(size_t)7;
    return (const char *)dst;
}
int bor_contains(const void *p)
{
    return bor_map && (const unsigned char *)p >= bor_map && (const unsigned char *)p < bor_map + BOR_LEN + 2 * PAGE;
}
uint32_t bor_checksum(void) { bor_init(); return cjv_crc32(bor_map + PAGE, bor_off); }

static int led_classify_fault(const unsigned char *a, char *out, size_t outlen)
{
    uint32_t i;
    if (!ltab) return 0;
    for (i = 0; i < LED_CAP; i++) {
        lent *e = &ltab[i];
        size_t pages;
        unsigned char *map;
        if (e->gen != lgen || !e->efence) continue;
        pages = (e->size + PAGE - 1) / PAGE;
        if (pages == 0) pages = 1;
        map = (unsigned char *)e->p + e->size - pages * PAGE;
        if (a >= map && a < map + (pages + 1) * PAGE) {
            if (e->state == 1) snprintf(out, outlen, "ledger/heap-over-access off=%ld size=%zu serial=%u", (long)(a - (unsigned char *)e->p), e->size, e->serial);
            else snprintf(out, outlen, "ledger/use-after-free off=%ld size=%zu serial=%u", (long)(a - (unsigned char *)e->p), e->size, e->serial);
            return 1;
        }
    }
    return 0;
}

int ga_classify_fault(const void *addr, char *out, size_t outlen)
{
    const unsigned char *a = addr;
    int i;
    if (led_classify_fault(a, out, outlen)) return 1;
    if (bor_contains(a)) { snprintf(out, outlen, "borrowed-arena-write-or-overrun"); return 1; }
    for (i = 0; i < MAXG; i++) {
        garena *g = live_g[i];
        if (!g) continue;
        if (a >= g->map && a < g->map + g->maplen) {
            if (a < g->data) snprintf(out, outlen, "guard/under-access off=-%ld n=%zu", (long)(g->data - a), g->n);
            else if (a >= g->data + g->n) snprintf(out, outlen, "guard/over-access off=%ld n=%zu", (long)(a - g->data), g->n);
            else snprintf(out, outlen, "guard/write-to-readonly off=%ld n=%zu", (long)(a - g->data), g->n);
            return 1;
        }
    }
    return 0;
}

/* ------------------------------------------------------------------------------------------ */
/* signals                                                                                    */

static unsigned char *stk_lo, *stk_hi;   /* painted stack bounds, for classification */
static volatile int mon_dying;

static void sig_write(const char *s) { ssize_t r = write(fileno(cjv_log), s, strlen(s)); (void)r; }

/* the C library's own heap checks aborted while the driver was releasing memory: if a block the
 * library wrote beyond is on record (damaged tail canary), the corruption is the library's doing */
static long led_damaged_canary(size_t *size_out)
{
#if CJV_PLAIN
    uint32_t i;
    for (i = 0; i < LED_CAP; i++) {
        const lent *e = &ltab[i];
        uint64_t t;
        if (e->gen != lgen || e->state == 0 || e->efence || e->p == NULL) continue;
        memcpy(&t, (const unsigned char *)e->p + e->size, 8);
        if (t != TAILMAGIC) { if (size_out) *size_out = e->size; return (long)e->serial; }
    }
#else
    (void)size_out;
#endif
    return -1;
}

static void on_fatal_signal(int sig, siginfo_t *si, void *uc_)
{
    char line[512], cls[160];
    ucontext_t *uc = uc_;
    (void)0;
    void *addr = si ? si->si_addr : NULL;
    unsigned long sp = 0;
#if defined(__x86_64__)
    if (uc) sp = (unsigned long)uc->uc_mcontext.gregs[REG_RSP];
#endif
    int was_in_lib = cjv_in_lib;
    if (mon_dying) _exit(3);      /* the sanitizer already reported and is aborting */
    cjv_in_lib = 0;
    fflush(cjv_log);
    cls[0] = 0;
    if (!was_in_lib && cjv_walking && sig != SIGALRM) {
        /* a monitor faulted while following the library's own pointers: the structure is corrupt */
        snprintf(line, sizeof line, "V %ld %ld wf/monitor-fault-on-corrupt-tree call=%s sig=%d addr=%p (walker reached unmapped memory through a library structure)\nX %ld %ld died\n",
                 cjv_case_id, cjv_op_idx, cjv_cur_call ? cjv_cur_call : "-", sig, addr, cjv_case_id, cjv_op_idx);
        sig_write(line);
        _exit(3);
    }
    if (!was_in_lib && sig == SIGABRT) {
        size_t bsz = 0;
        long ser = led_damaged_canary(&bsz);
        if (ser >= 0) {
            snprintf(line, sizeof line, "V %ld %ld ledger/tail-canary call=%s block serial=%ld size=%zu: bytes behind the block were overwritten (noticed when the C library's heap checks aborted)\nX %ld %ld died\n",
                     cjv_case_id, cjv_op_idx, cjv_cur_call ? cjv_cur_call : "-", ser, bsz, cjv_case_id, cjv_op_idx);
            sig_write(line);
            _exit(3);
        }
    }
    if (!was_in_lib && sig != SIGALRM) {
        /* the driver itself crashed: harness failure, never a verdict about the library */
        snprintf(line, sizeof line, "H %ld %ld harness-crash sig=%d addr=%p last_call=%s\n", cjv_case_id, cjv_op_idx, sig, addr, cjv_cur_call ? cjv_cur_call : "-");
        sig_write(line);
        _exit(2);
    }
    if (sig == SIGALRM) snprintf(cls, sizeof cls, "hang");
    else if (sig == SIGSEGV || sig == SIGBUS) {
        if (!ga_classify_fault(addr, cls, sizeof cls)) {
            unsigned long a = (unsigned long)addr;
            if ((stk_lo && (unsigned char *)addr >= stk_lo - PAGE && (unsigned char *)addr < stk_lo + PAGE) ||
                (sp && a + 65536 > sp && a < sp + 65536)) snprintf(cls, sizeof cls, "stack-overflow");
            else if (a < 4096) snprintf(cls, sizeof cls, "crash/null-deref");
            else snprintf(cls, sizeof cls, "crash/segv");
        }
    } else if (sig == SIGABRT) snprintf(cls, sizeof cls, "crash/abort");
    else snprintf(cls, sizeof cls, "crash/signal-%d", sig);
    snprintf(line, sizeof line, "V %ld %ld %s call=%s sig=%d addr=%p in_lib=%d\nX %ld %ld died\n",
             cjv_case_id, cjv_op_idx, cls, cjv_cur_call ? cjv_cur_call : "-", sig, addr, was_in_lib, cjv_case_id, cjv_op_idx);
    sig_write(line);
    _exit(sig == SIGALRM ? 4 : 3);
}

void mon_install_handlers(void)
{
    /* mmap'd: under ASan the runtime unmaps the thread's alternate stack at thread exit */
    unsigned char *altstack = mmap(NULL, 1 << 16, PROT_READ | PROT_WRITE, MAP_PRIVATE | MAP_ANONYMOUS, -1, 0);
    stack_t ss;
    struct sigaction sa;
    int sigs[] = { SIGSEGV, SIGBUS, SIGABRT, SIGFPE, SIGILL, SIGALRM };
    size_t i;
    ss.ss_sp = altstack; ss.ss_size = 1 << 16; ss.ss_flags = 0;
    sigaltstack(&ss, NULL);
    memset(&sa, 0, sizeof sa);
    sa.sa_sigaction = on_fatal_signal;
    sa.sa_flags = SA_SIGINFO | SA_ONSTACK;
    sigemptyset(&sa.sa_mask);
    for (i = 0; i < sizeof sigs / sizeof sigs[0]; i++) {
#if !CJV_PLAIN
        /* the sanitizer runtime reports SEGV/BUS/FPE/ILL itself (with a stack trace) and then
         * calls our on-error hook; we only take ABRT (what -fno-sanitize-recover ends in) and ALRM */
        if (sigs[i] != SIGABRT && sigs[i] != SIGALRM) continue;
#endif
        sigaction(sigs[i], &sa, NULL);
    }
}

void mon_alarm(unsigned seconds) { alarm(seconds); }

#if CJV_ASAN
void __asan_on_error(void);
void __asan_on_error(void)
{
    char line[256];
    int was = cjv_in_lib;
    mon_dying = 1;
    cjv_in_lib = 0;
    fflush(cjv_log);
    if (!was && cjv_walking) {
        snprintf(line, sizeof line, "V %ld %ld wf/monitor-fault-on-corrupt-tree call=%s (sanitizer report while a monitor followed a library structure) see-stderr\nX %ld %ld died\n",
                 cjv_case_id, cjv_op_idx, cjv_cur_call ? cjv_cur_call : "-", cjv_case_id, cjv_op_idx);
        sig_write(line);
        return;
    }
    if (!was) {
        snprintf(line, sizeof line, "H %ld %ld harness-crash sanitizer report outside a library call (last_call=%s)\n", cjv_case_id, cjv_op_idx, cjv_cur_call ? cjv_cur_call : "-");
        sig_write(line);
        return;
    }
    snprintf(line, sizeof line, "V %ld %ld sanitizer/asan call=%s see-stderr\nX %ld %ld died\n",
             cjv_case_id, cjv_op_idx, cjv_cur_call ? cjv_cur_call : "-", cjv_case_id, cjv_op_idx);
    sig_write(line);
}
#endif

/* ------------------------------------------------------------------------------------------ */
/* painted stack                                                                              */

#define STK_LEN (16UL << 20)
static unsigned char *stk_map;
static size_t stk_dirty = STK_LEN;    /* bytes from the top that may be unpainted */

typedef struct { stack_fn fn; void *arg; } stk_call;
static void *stk_tramp(void *p) { stk_call *c = p; c->fn(c->arg); return NULL; }

size_t stack_run(stack_fn fn, void *arg)
{
    pthread_attr_t at;
    pthread_t th;
    stk_call c;
    size_t used, i;
    if (!stk_map) {
        stk_map = mmap(NULL, STK_LEN + PAGE, PROT_READ | PROT_WRITE, MAP_PRIVATE | MAP_ANONYMOUS | MAP_NORESERVE, -1, 0);
        if (stk_map == MAP_FAILED) cjv_fatal("mmap stack");
        mprotect(stk_map, PAGE, PROT_NONE);
        stk_lo = stk_map + PAGE; stk_hi = stk_lo + STK_LEN;
        stk_dirty = STK_LEN;
    }
    /* (re)paint what the previous run may have touched */
    memset(stk_hi - stk_dirty, 0xA5, stk_dirty);
    c.fn = fn; c.arg = arg;
    pthread_attr_init(&at);
    pthread_attr_setstack(&at, stk_lo, STK_LEN);
    if (pthread_create(&th, &at, stk_tramp, &c) != 0) cjv_fatal("pthread_create");
    pthread_join(th, NULL);
    pthread_attr_destroy(&at);
    /* high-water mark: lowest address that is no longer 0xA5 (scan in 64-byte strides first) */
    for (i = 0; i < STK_LEN; i += 64) {
        const uint64_t *w = (const uint64_t *)(stk_lo + i);
        if (w[0] != 0xA5A5A5A5A5A5A5A5ULL || w[7] != 0xA5A5A5A5A5A5A5A5ULL || w[3] != 0xA5A5A5A5A5A5A5A5ULL) break;
    }
    used = STK_LEN - i;
    stk_dirty = used + 4096 < STK_LEN ? used + 4096 : STK_LEN;
    return used;
}

/* ------------------------------------------------------------------------------------------ */
/* structural walker                                                                          */

static uint32_t walk_id = 1;
static long walk_steps, walk_cap;
static int walk_ledger;
static const char *walk_what;
static int walk_bad;

#define WBAD(key, ...) do { if (!walk_bad) cjv_violation(key, __VA_ARGS__); walk_bad = 1; } while (0)

static int one_bit(int t) { t &= 0xFF; return t != 0 && (t & (t - 1)) == 0; }

static void wf_owned_block(const void *p, size_t min, const char *role, const cJSON *n)
{
    size_t sz = 0;
    int r;
    if (!walk_ledger) return;
    r = led_lookup(p, &sz, NULL);
    if (r != 1) { WBAD("wf/not-live", "%s: %s %p of node %p is %s", walk_what, role, p, (const void *)n, r == 0 ? "not a block of the allocator" : "a freed block"); return; }
    if (sz < min) { WBAD("wf/short-block", "%s: %s block has %zu bytes, needs %zu", walk_what, role, sz, min); return; }
    if (led_mark(p, walk_id) == 0) WBAD("wf/shared-block", "%s: %s %p reachable twice", walk_what, role, p);
}

static void wf_node(const cJSON *n, int is_member, int depth)
{
    int t;
    if (walk_bad) return;
    if (++walk_steps > walk_cap) { WBAD("wf/cycle-or-runaway", "%s: more than %ld nodes reachable", walk_what, walk_cap); return; }
    wf_owned_block(n, sizeof(cJSON), "node", n);
    if (walk_bad) return;
    t = n->type;
    if (!one_bit(t)) { WBAD("wf/type", "%s: node type %d does not have exactly one type bit", walk_what, t); return; }
    if ((t & 0xFF) == cJSON_String || (t & 0xFF) == cJSON_Raw) {
        if (n->valuestring == NULL) { WBAD("wf/null-valuestring", "%s: string/raw node without value", walk_what); return; }
        if (!(t & cJSON_IsReference)) wf_owned_block(n->valuestring, strlen(n->valuestring) + 1, "valuestring", n);
    }
    if (is_member && n->string == NULL) { WBAD("wf/member-without-key", "%s: object member without key (depth %d)", walk_what, depth); return; }
    if (n->string != NULL && !(t & cJSON_StringIsConst)) wf_owned_block(n->string, strlen(n->string) + 1, "key", n);
    if (walk_bad) return;
    if (((t & 0xFF) == cJSON_Array || (t & 0xFF) == cJSON_Object) && !(t & cJSON_IsReference) && n->child) {
        const cJSON *c = n->child, *prev = NULL, *last = NULL;
        long i = 0;
        for (; c != NULL; prev = c, c = c->next, i++) {
            if (i > walk_cap) { WBAD("wf/cycle-or-runaway", "%s: sibling chain does not end", walk_what); return; }
            /* never touch a child before knowing that it is a live block (the monitor must not be the one that crashes) */
            if (walk_ledger && led_lookup(c, NULL, NULL) != 1) { WBAD("wf/not-live", "%s: child %ld of a container is not a live block (depth %d)", walk_what, i, depth); return; }
            if (prev != NULL && c->prev != prev) { WBAD("wf/prev-mismatch", "%s: child %ld: prev does not mirror next (depth %d)", walk_what, i, depth); return; }
            wf_node(c, (t & 0xFF) == cJSON_Object, depth + 1);
            if (walk_bad) return;
            last = c;
        }
        if (n->child->prev != last) { WBAD("wf/head-prev", "%s: first child's prev does not designate the last child (%ld children, depth %d)", walk_what, i, depth); return; }
    }
}

int wf_check(const cJSON *root, int flags, const char *what)
{
    if (root == NULL) return 0;
    walk_id++;
    walk_steps = 0;
    walk_ledger = !(flags & WF_NOLEDGER);
    walk_cap = walk_ledger ? led.live_blocks + 16 : 50000000L;
    walk_what = what;
    walk_bad = 0;
    WALK_BEGIN();
    if (walk_ledger && led_lookup(root, NULL, NULL) != 1) WBAD("wf/not-live", "%s: root is not a live block", what);
    else {
        if ((flags & WF_ROOT) && (root->next != NULL || root->prev != NULL)) WBAD("wf/root-links", "%s: root/detached item has sibling links", what);
        wf_node(root, 0, 0);
    }
    WALK_END();
    return walk_bad;
}

/* ------------------------------------------------------------------------------------------ */
/* TN dump                                                                                    */

static long tn_steps, tn_cap, tn_depth;

static int tn_ledger;      /* 1: every pointer is checked against the ledger before it is followed */
static int tn_live(const void *p, int borrowed_ok)
{
    if (!tn_ledger) return 1;
    if (led_lookup(p, NULL, NULL) == 1) return 1;
    return borrowed_ok && bor_contains(p);
}

static int tn_node(bbuf *o, const cJSON *n)
{
    int t, lo;
    if (++tn_steps > tn_cap) return -1;
    if (tn_depth > 400000) return -1;
    if (!tn_live(n, 0)) return -2;
    t = n->type; lo = t & 0xFF;
    if (n->string && !tn_live(n->string, (t & cJSON_StringIsConst) != 0)) return -2;
    if (n->valuestring && !tn_live(n->valuestring, (t & cJSON_IsReference) != 0)) return -2;
    if (n->string) {
        bb_putc(o, (t & cJSON_StringIsConst) ? 'c' : 'k');
        bb_hex(o, n->string, strlen(n->string));
        bb_putc(o, ';');
    }
    if (t & cJSON_IsReference) bb_putc(o, 'r');
    switch (lo) {
    case cJSON_NULL: bb_putc(o, 'z'); break;
    case cJSON_True: bb_putc(o, 't'); break;
    case cJSON_False: bb_putc(o, 'f'); break;
    case cJSON_Number: {
        uint64_t bits;
        memcpy(&bits, &n->valuedouble, 8);
        bb_printf(o, "n%016llx,%d;", (unsigned long long)bits, n->valueint);
        break;
    }
    case cJSON_String:
    case cJSON_Raw:
        bb_putc(o, lo == cJSON_String ? 's' : 'w');
        if (n->valuestring) bb_hex(o, n->valuestring, strlen(n->valuestring)); else bb_putc(o, '!');
        bb_putc(o, ';');
        break;
    case cJSON_Array:
    case cJSON_Object: {
        long cnt = 0;
        const cJSON *c;
        size_t at;
        bb_putc(o, lo == cJSON_Array ? 'a' : 'o');
        for (c = n->child; c; c = c->next) { if (++cnt > tn_cap) return -1; if (!tn_live(c, 0)) return -2; }
        bb_printf(o, "%ld;", cnt);
        at = o->n; (void)at;
        tn_depth++;
        for (c = n->child; c; c = c->next) { int rc = tn_node(o, c); if (rc < 0) { tn_depth--; return rc; } }
        tn_depth--;
        break;
    }
    default:
        bb_printf(o, "i%d;", t);
        break;
    }
    return 0;
}

int tn_dump(bbuf *out, const cJSON *root)
{
    tn_ledger = led_expect_origin != 0;     /* a case is in progress: all library blocks are in the ledger */
    tn_steps = 0;
    tn_depth = 0;
    tn_cap = 4000000L;
    if (root == NULL) { bb_putc(out, '-'); return 0; }
    { int rc; WALK_BEGIN(); rc = tn_node(out, root); WALK_END(); return rc; }
}

static long pre_idx;
static long pre_find(const cJSON *n, const cJSON *target)
{
    const cJSON *c;
    long here = pre_idx++;
    if (n == target) return here;
    if (pre_idx > 20000000L) return -1;
    if (n->type & cJSON_IsReference) return -1;
    for (c = n->child; c; c = c->next) { long r = pre_find(c, target); if (r >= 0) return r; }
    return -1;
}
long tn_preorder_index(const cJSON *root, const cJSON *target)
{
    if (!root || !target) return -1;
    pre_idx = 0;
    { long r; WALK_BEGIN(); r = pre_find(root, target); WALK_END(); return r; }
}

/* ------------------------------------------------------------------------------------------ */
/* TN build (through the public construction API)                                             */

static int hexval(int c) { if (c >= '0' && c <= '9') return c - '0'; if (c >= 'a' && c <= 'f') return c - 'a' + 10; if (c >= 'A' && c <= 'F') return c - 'A' + 10; return -1; }

static char *tn_hexstr(const char **pp)   /* reads hex up to ';' -> malloc'd C string */
{
    const char *p = *pp;
    size_t n = 0;
    char *s;
    size_t i;
    while (p[n] && p[n] != ';') n++;
    if (p[n] != ';' || (n & 1)) cjv_fatal("bad TN hex");
    s = xmalloc(n / 2 + 1);
    for (i = 0; i < n / 2; i++) s[i] = (char)((hexval(p[2 * i]) << 4) | hexval(p[2 * i + 1]));
    s[n / 2] = 0;
    *pp = p + n + 1;
    return s;
}

#define MAXPIN 4096
static cJSON *pinned[MAXPIN];
static int npinned;
void tn_release_pinned(void)
{
    while (npinned > 0) { cJSON *c = pinned[--npinned]; LIB_BEGIN("cJSON_Delete"); cJSON_Delete(c); LIB_END(); }
}

cJSON *tn_build(const char **pp)
{
    const char *p = *pp;
    char *key = NULL;
    int key_const = 0, ref = 0;
    cJSON *n = NULL;
    if (*p == 'k' || *p == 'c') { key_const = (*p == 'c'); p++; key = tn_hexstr(&p); }
    if (*p == 'r') { ref = 1; p++; }
    switch (*p++) {
    case 'z': LIB_BEGIN("cJSON_CreateNull"); n = cJSON_CreateNull(); LIB_END(); break;
    case 't': LIB_BEGIN("cJSON_CreateTrue"); n = cJSON_CreateTrue(); LIB_END(); break;
    case 'f': LIB_BEGIN("cJSON_CreateFalse"); n = cJSON_CreateFalse(); LIB_END(); break;
    case 'n': {
        unsigned long long bits = strtoull(p, (char **)&p, 16);
        double d;
        uint64_t b = bits;
        memcpy(&d, &b, 8);
        while (*p && *p != ';') p++;
        if (*p == ';') p++;
        LIB_BEGIN("cJSON_CreateNumber"); n = cJSON_CreateNumber(d); LIB_END();
        break;
    }
    case 's': {
        char *s = tn_hexstr(&p);
        if (ref) { const char *b = bor_add(s, strlen(s) + 1); LIB_BEGIN("cJSON_CreateStringReference"); n = cJSON_CreateStringReference(b); LIB_END(); }
        else { LIB_BEGIN("cJSON_CreateString"); n = cJSON_CreateString(s); LIB_END(); }
        xfree(s);
        break;
    }
    case 'w': {
        char *s = tn_hexstr(&p);
        LIB_BEGIN("cJSON_CreateRaw"); n = cJSON_CreateRaw(s); LIB_END();
        xfree(s);
        break;
    }
    case 'a':
    case 'o': {
        int isobj = p[-1] == 'o';
        long cnt = strtol(p, (char **)&p, 10), i;
        if (*p != ';') cjv_fatal("bad TN count");
        p++;
        if (isobj) { LIB_BEGIN("cJSON_CreateObject"); n = cJSON_CreateObject(); LIB_END(); }
        else { LIB_BEGIN("cJSON_CreateArray"); n = cJSON_CreateArray(); LIB_END(); }
        if (!n) cjv_fatal("create container failed in tn_build");
        for (i = 0; i < cnt; i++) {
            /* peek the child's key: tn_build of the child consumes it, so parse it here */
            char *ck = NULL;
            int cconst = 0;
            cJSON *c;
            if (isobj) {
                if (*p != 'k' && *p != 'c') cjv_fatal("TN object member without key");
                cconst = (*p == 'c'); p++;
                ck = tn_hexstr(&p);
            }
            {
                /* "r" in front of a non-string child: attach a *reference* to it (the item itself stays
                 * pinned until the end of the case and is released by tn_release_pinned) */
                int as_ref = (p[0] == 'r' && p[1] != 's');
                if (as_ref) p++;
                c = tn_build(&p);
                if (!c) cjv_fatal("tn_build child failed");
                if (as_ref) {
                    cJSON_bool ok;
                    if (npinned == MAXPIN) cjv_fatal("too many pinned items");
                    pinned[npinned++] = c;
                    if (isobj) { LIB_BEGIN("cJSON_AddItemReferenceToObject"); ok = cJSON_AddItemReferenceToObject(n, ck, c); LIB_END(); xfree(ck); }
                    else { LIB_BEGIN("cJSON_AddItemReferenceToArray"); ok = cJSON_AddItemReferenceToArray(n, c); LIB_END(); }
                    if (!ok) cjv_violation("build/add-failed", "AddItemReferenceTo* returned false while building a tree");
                    continue;
                }
            }
            if (isobj) {
                cJSON_bool ok;
                if (cconst) { const char *b = bor_add(ck, strlen(ck) + 1); LIB_BEGIN("cJSON_AddItemToObjectCS"); ok = cJSON_AddItemToObjectCS(n, b, c); LIB_END(); }
                else { LIB_BEGIN("cJSON_AddItemToObject"); ok = cJSON_AddItemToObject(n, ck, c); LIB_END(); }
                if (!ok) cjv_violation("build/add-failed", "AddItemToObject returned false while building a tree");
                xfree(ck);
            } else {
                cJSON_bool ok;
                LIB_BEGIN("cJSON_AddItemToArray"); ok = cJSON_AddItemToArray(n, c); LIB_END();
                if (!ok) cjv_violation("build/add-failed", "AddItemToArray returned false while building a tree");
            }
        }
        break;
    }
    default:
        cjv_fatal("bad TN node char '%c'", p[-1]);
    }
    if (key) {
        /* a key on a node that is not being added by a parent loop (root with key): ignore */
        xfree(key);
        (void)key_const;
    }
    *pp = p;
    return n;
}
