/* cjv_tsan.c - C20: N threads, each running a private, seed-determined program over
 * thread-private trees and buffers, under ThreadSanitizer.  The same programs are then run
 * one after the other and the per-thread result digests must match.
 *
 * usage: cjv_tsan <threads> <calls-per-thread> <seed> <hooks: default|custom>
 * prints one summary line (JSON) on stdout; TSan reports go where TSAN_OPTIONS says.
 */
#define _GNU_SOURCE
#include <stdio.h>
#include <stdlib.h>
#include <string.h>
#include <pthread.h>
#include <sched.h>
#include "cJSON.h"
#include "cJSON_Utils.h"
#include "cjv_gen.h"

#define MAXT 64
enum { F_PARSE, F_PARSEFAIL, F_PRINT, F_EDIT, F_COMPARE, F_DUP, F_MINIFY, F_POINTER, F_PATCH, F_MERGE, F_SORT, F_DELETE, NFAM };
static const char *const FAM[NFAM] = { "parse", "parse-fail", "print", "edit", "compare", "duplicate", "minify", "pointer", "patch", "merge-patch", "sort", "delete" };

static int active[MAXT];                 /* family+1 of the library call in progress, per thread (relaxed atomics) */
static int nthreads;

typedef struct {
    int tid;
    uint64_t seed;
    long calls;
    int concurrent;
    uint64_t digest;
    long fam_calls[NFAM];
    unsigned char overlap[NFAM][NFAM];
    long max_parallel;
    long allocs, frees;
} tctx;

static __thread tctx *me;

/* custom hooks: plain malloc/free plus per-thread counters, no locks, no shared state */
static void *h_malloc(size_t n) { if (me) me->allocs++; return malloc(n); }
static void h_free(void *p) { if (p && me) me->frees++; free(p); }

static void enter(tctx *c, int fam)
{
    int i, par = 1;
    c->fam_calls[fam]++;
    if (!c->concurrent) return;
    __atomic_store_n(&active[c->tid], fam + 1, __ATOMIC_RELAXED);
    for (i = 0; i < nthreads; i++) {
        int a;
        if (i == c->tid) continue;
        a = __atomic_load_n(&active[i], __ATOMIC_RELAXED);
        if (a) { c->overlap[fam][a - 1] = 1; par++; }
    }
    if (par > c->max_parallel) c->max_parallel = par;
}
static void leave(tctx *c)
{
    if (c->concurrent) __atomic_store_n(&active[c->tid], 0, __ATOMIC_RELAXED);
}

static void perturb(grng *r)
{
    unsigned k = g_below(r, 8);
    if (k == 0) sched_yield();
    else if (k == 1) { volatile unsigned i; for (i = 0; i < 200 + g_below(r, 2000); i++) { } }
}

#define NTREES 4

static void run_program(tctx *c)
{
    grng r, pr;
    cJSON *t[NTREES];
    long n;
    int i;
    uint64_t h = 0xcbf29ce484222325ULL;
    r.s = c->seed * 0x9E3779B97F4A7C15ULL + 12345;
    pr.s = c->seed ^ 0xABCDEF;          /* perturbation uses its own stream: programs stay identical */
    me = c;
    for (i = 0; i < NTREES; i++) { enter(c, F_EDIT); t[i] = g_tree(&r, 0, 1); leave(c); }
    for (n = 0; n < c->calls; n++) {
        unsigned what = g_below(&r, 16);
        unsigned a = g_below(&r, NTREES), b = g_below(&r, NTREES);
        if (c->concurrent) perturb(&pr);
        switch (what) {
        case 0: {   /* print then parse back, compare */
            char *s;
            cJSON *p;
            enter(c, F_PRINT); s = g_below(&r, 2) ? cJSON_Print(t[a]) : cJSON_PrintUnformatted(t[a]); leave(c);
            if (!s) { h = g_fnv(h, "nil", 3); break; }
            h = g_fnv(h, s, strlen(s));
            enter(c, F_PARSE); p = g_below(&r, 2) ? cJSON_Parse(s) : cJSON_ParseWithLength(s, strlen(s) + 1); leave(c);
            if (p) {
                int eq;
                enter(c, F_COMPARE); eq = cJSON_Compare(p, t[a], 1); leave(c);
                h = g_fnv(h, &eq, sizeof eq);
                enter(c, F_DELETE); cJSON_Delete(p); leave(c);
            } else h = g_fnv(h, "rej", 3);
            cJSON_free(s);
            break;
        }
        case 1: {   /* failing parse: error position through return_parse_end only */
            char *s;
            const char *end = NULL;
            cJSON *p;
            size_t len, cut;
            enter(c, F_PRINT); s = cJSON_PrintUnformatted(t[a]); leave(c);
            if (!s) break;
            len = strlen(s);
            cut = len ? g_below(&r, (unsigned)len) : 0;
            s[cut] = g_below(&r, 2) ? '\0' : '@';
            enter(c, F_PARSEFAIL); p = cJSON_ParseWithOpts(s, &end, 1); leave(c);
            { long off = end ? (long)(end - s) : -1; int ok = p != NULL; h = g_fnv(h, &off, sizeof off); h = g_fnv(h, &ok, sizeof ok); }
            if (p) { enter(c, F_DELETE); cJSON_Delete(p); leave(c); }
            cJSON_free(s);
            break;
        }
        case 2: {   /* buffered / preallocated printing */
            char buf[512];
            char *s;
            int ok;
            enter(c, F_PRINT); s = cJSON_PrintBuffered(t[a], (int)g_below(&r, 300), (int)g_below(&r, 2)); leave(c);
            if (s) { h = g_fnv(h, s, strlen(s)); cJSON_free(s); }
            enter(c, F_PRINT); ok = cJSON_PrintPreallocated(t[a], buf, (int)(g_below(&r, 2) ? sizeof buf : 40), (int)g_below(&r, 2)); leave(c);
            h = g_fnv(h, &ok, sizeof ok);
            if (ok) h = g_fnv(h, buf, strlen(buf));
            break;
        }
        case 3: case 4: {   /* edits */
            cJSON *x;
            int rc = 0;
            enter(c, F_EDIT);
            x = g_tree(&r, 2, 1);
            if (cJSON_IsArray(t[a])) {
                unsigned k = g_below(&r, 4);
                if (k == 0) rc = cJSON_AddItemToArray(t[a], x);
                else if (k == 1) rc = cJSON_InsertItemInArray(t[a], (int)g_below(&r, 4), x);
                else if (k == 2) { rc = cJSON_ReplaceItemInArray(t[a], (int)g_below(&r, 3), x); if (!rc) cJSON_Delete(x); }
                else { cJSON *d = cJSON_DetachItemFromArray(t[a], (int)g_below(&r, 3)); rc = d != NULL; cJSON_Delete(d); cJSON_Delete(x); }
            } else if (cJSON_IsObject(t[a])) {
                static const char *const ks[] = { "a", "A", "b", "new", "" };
                const char *key = ks[g_below(&r, 5)];
                unsigned k = g_below(&r, 4);
                if (k == 0) { if (cJSON_GetObjectItemCaseSensitive(t[a], key)) cJSON_Delete(x); else rc = cJSON_AddItemToObject(t[a], key, x); }
                else if (k == 1) { rc = cJSON_ReplaceItemInObjectCaseSensitive(t[a], key, x); if (!rc) cJSON_Delete(x); }
                else if (k == 2) { cJSON_DeleteItemFromObjectCaseSensitive(t[a], key); cJSON_Delete(x); }
                else { cJSON *g = cJSON_GetObjectItem(t[a], key); rc = g != NULL; if (g && cJSON_IsNumber(g)) cJSON_SetNumberValue(g, 7.5); cJSON_Delete(x); }
            } else { cJSON_Delete(t[a]); t[a] = x; rc = 2; }
            leave(c);
            h = g_fnv(h, &rc, sizeof rc);
            break;
        }
        case 5: {   /* compare */
            int e1, e2;
            enter(c, F_COMPARE); e1 = cJSON_Compare(t[a], t[b], 1); e2 = cJSON_Compare(t[a], t[b], 0); leave(c);
            h = g_fnv(h, &e1, sizeof e1); h = g_fnv(h, &e2, sizeof e2);
            break;
        }
        case 6: {   /* duplicate */
            cJSON *d;
            int eq = -1;
            enter(c, F_DUP); d = cJSON_Duplicate(t[a], 1); leave(c);
            if (d) { enter(c, F_COMPARE); eq = cJSON_Compare(d, t[a], 1); leave(c); enter(c, F_DELETE); cJSON_Delete(d); leave(c); }
            h = g_fnv(h, &eq, sizeof eq);
            break;
        }
        case 7: {   /* minify a private buffer */
            char *s, *m;
            size_t len, j, k2 = 0;
            enter(c, F_PRINT); s = cJSON_Print(t[a]); leave(c);
            if (!s) break;
            len = strlen(s);
            m = malloc(2 * len + 32);
            for (j = 0; j < len; j++) { m[k2++] = s[j]; if (s[j] == ',' && g_below(&r, 3) == 0) { memcpy(m + k2, "/*c*/", 5); k2 += 5; } }
            memcpy(m + k2, " //end", 7);
            enter(c, F_MINIFY); cJSON_Minify(m); leave(c);
            h = g_fnv(h, m, strlen(m));
            free(m); cJSON_free(s);
            break;
        }
        case 8: {   /* pointers */
            char *p = NULL;
            cJSON *target = t[a], *got = NULL;
            int depth;
            for (depth = 0; depth < 3 && target && target->child; depth++) { target = target->child; if (g_below(&r, 2) && target->next) target = target->next; }
            enter(c, F_POINTER); p = cJSONUtils_FindPointerFromObjectTo(t[a], target); leave(c);
            if (p) {
                enter(c, F_POINTER); got = cJSONUtils_GetPointerCaseSensitive(t[a], p); leave(c);
                h = g_fnv(h, p, strlen(p));
                { int same = got == target; h = g_fnv(h, &same, sizeof same); }
                cJSON_free(p);
            }
            break;
        }
        case 9: case 10: {   /* generate a patch a -> b, apply it to a copy of a, compare with b */
            cJSON *pa, *cp;
            int st = -1, eq = -1;
            if (a == b) break;
            enter(c, F_PATCH); pa = cJSONUtils_GeneratePatchesCaseSensitive(t[a], t[b]); leave(c);
            enter(c, F_DUP); cp = cJSON_Duplicate(t[a], 1); leave(c);
            if (pa && cp) {
                enter(c, F_PATCH); st = cJSONUtils_ApplyPatchesCaseSensitive(cp, pa); leave(c);
                enter(c, F_COMPARE); eq = cJSON_Compare(cp, t[b], 1); leave(c);
            }
            h = g_fnv(h, &st, sizeof st); h = g_fnv(h, &eq, sizeof eq);
            enter(c, F_DELETE); cJSON_Delete(pa); cJSON_Delete(cp); leave(c);
            break;
        }
        case 11: {   /* merge patch */
            cJSON *mp, *cp;
            int eq = -1;
            if (a == b) break;
            enter(c, F_MERGE); mp = cJSONUtils_GenerateMergePatchCaseSensitive(t[a], t[b]); leave(c);
            enter(c, F_DUP); cp = cJSON_Duplicate(t[a], 1); leave(c);
            if (mp && cp) {
                enter(c, F_MERGE); cp = cJSONUtils_MergePatchCaseSensitive(cp, mp); leave(c);
                if (cp) { char *s; enter(c, F_PRINT); s = cJSON_PrintUnformatted(cp); leave(c); if (s) { h = g_fnv(h, s, strlen(s)); cJSON_free(s); } }
            }
            h = g_fnv(h, &eq, sizeof eq);
            enter(c, F_DELETE); cJSON_Delete(mp); cJSON_Delete(cp); leave(c);
            break;
        }
        case 12: {   /* sort */
            char *s;
            enter(c, F_SORT); if (g_below(&r, 2)) cJSONUtils_SortObjectCaseSensitive(t[a]); else cJSONUtils_SortObject(t[a]); leave(c);
            enter(c, F_PRINT); s = cJSON_PrintUnformatted(t[a]); leave(c);
            if (s) { h = g_fnv(h, s, strlen(s)); cJSON_free(s); }
            break;
        }
        case 13: case 14: {   /* hand-written patches, including the whole-document operations */
            static const char *const P[] = {
                "[{\"op\":\"remove\",\"path\":\"\"}]",
                "[{\"op\":\"replace\",\"path\":\"\",\"value\":{\"x\":[1,2]}}]",
                "[{\"op\":\"add\",\"path\":\"\",\"value\":[1]}]",
                "[{\"op\":\"test\",\"path\":\"\",\"value\":1}]",
                "[{\"op\":\"copy\",\"from\":\"\",\"path\":\"\"}]",
                "[{\"op\":\"move\",\"from\":\"\",\"path\":\"\"}]",
                "[{\"op\":\"add\",\"path\":\"/zz\",\"value\":true},{\"op\":\"move\",\"from\":\"/zz\",\"path\":\"/yy\"},{\"op\":\"copy\",\"from\":\"/yy\",\"path\":\"/ww\"},{\"op\":\"remove\",\"path\":\"/yy\"}]",
                "[{\"op\":\"add\",\"path\":\"/-\",\"value\":null},{\"op\":\"add\",\"path\":\"/0\",\"value\":{\"b\":1,\"a\":2}},{\"op\":\"test\",\"path\":\"/0\",\"value\":{\"a\":2,\"b\":1}},{\"op\":\"replace\",\"path\":\"/0\",\"value\":7}]",
                "[{\"op\":\"remove\",\"path\":\"/a\"},{\"op\":\"add\",\"path\":\"/a\",\"value\":\"x\"}]",
                "[{\"op\":\"bogus\",\"path\":\"/a\"}]",
                "{\"a\":null,\"b\":{\"c\":1}}"
            };
            const char *text = P[g_below(&r, sizeof P / sizeof P[0])];
            cJSON *patch, *cp;
            int st = -1;
            enter(c, F_PARSE); patch = cJSON_Parse(text); leave(c);
            enter(c, F_DUP); cp = cJSON_Duplicate(t[a], 1); leave(c);
            if (patch && cp) {
                char *s;
                if (cJSON_IsArray(patch)) {
                    enter(c, F_PATCH); st = g_below(&r, 2) ? cJSONUtils_ApplyPatchesCaseSensitive(cp, patch) : cJSONUtils_ApplyPatches(cp, patch); leave(c);
                } else {
                    enter(c, F_MERGE); cp = g_below(&r, 2) ? cJSONUtils_MergePatchCaseSensitive(cp, patch) : cJSONUtils_MergePatch(cp, patch); leave(c);
                }
                enter(c, F_PRINT); s = cp ? cJSON_PrintUnformatted(cp) : NULL; leave(c);
                if (s) { h = g_fnv(h, s, strlen(s)); cJSON_free(s); }
                if (cp) { int ty = cp->type & 0xFF, links = (cp->next != NULL) | ((cp->prev != NULL) << 1); h = g_fnv(h, &ty, sizeof ty); h = g_fnv(h, &links, sizeof links); }
            }
            h = g_fnv(h, &st, sizeof st);
            enter(c, F_DELETE); cJSON_Delete(patch); cJSON_Delete(cp); leave(c);
            break;
        }
        default: {   /* delete and regenerate */
            enter(c, F_DELETE); cJSON_Delete(t[a]); leave(c);
            enter(c, F_EDIT); t[a] = g_tree(&r, 0, 1); leave(c);
            break;
        }
        }
    }
    for (i = 0; i < NTREES; i++) { enter(c, F_DELETE); cJSON_Delete(t[i]); leave(c); }
    c->digest = h;
    me = NULL;
}

static pthread_barrier_t bar;
static void *thread_main(void *p)
{
    tctx *c = p;
    /* one CPU per thread: after a barrier wake-up the scheduler otherwise leaves short-lived
     * threads on the waker's CPU, where they merely time-share and never overlap */
    {
        cpu_set_t all, one;
        int ncpu, k, want;
        if (sched_getaffinity(0, sizeof all, &all) == 0 && (ncpu = CPU_COUNT(&all)) > 1) {
            want = c->tid % ncpu;
            for (k = 0; k < CPU_SETSIZE; k++) if (CPU_ISSET(k, &all) && want-- == 0) break;
            CPU_ZERO(&one); CPU_SET(k, &one);
            pthread_setaffinity_np(pthread_self(), sizeof one, &one);
        }
    }
    pthread_barrier_wait(&bar);
    run_program(c);
    return NULL;
}

/* ---- behavioural exemption of the documented global error position ---- */
#if defined(__SANITIZE_THREAD__)
void AnnotateBenignRaceSized(const char *f, int l, const volatile void *mem, long size, const char *desc);
#define HAVE_TSAN 1
#else
#define HAVE_TSAN 0
#endif
extern char __data_start, _end;

__attribute__((no_sanitize("thread")))
static int exempt_error_position(void)
{
    static char probe[] = "[1, 2, @]";          /* fails at offset 7 */
    const char *end = NULL;
    cJSON *r = cJSON_ParseWithOpts(probe, &end, 1);
    uintptr_t *w, *lo = (uintptr_t *)(((uintptr_t)&__data_start + 7) & ~(uintptr_t)7), *hi = (uintptr_t *)&_end;
    uintptr_t *found = NULL;
    int n = 0;
    if (r || !end) { cJSON_Delete(r); return 0; }
    for (w = lo; w + 1 < hi; w++) {
        if (w[0] == (uintptr_t)probe && w[1] == (uintptr_t)(end - probe)) { found = w; n++; }
    }
    if (n != 1) return 0;
    /* a successful parse must reset it: then it really is the error position */
    r = cJSON_Parse("1");
    cJSON_Delete(r);
    if (found[0] != 0 || found[1] != 0) return 0;
#if HAVE_TSAN
    AnnotateBenignRaceSized(__FILE__, __LINE__, found, 2 * (long)sizeof(uintptr_t), "documented global error position");
#endif
    return 1;
}

int main(int argc, char **argv)
{
    static tctx ctx[MAXT], seq[MAXT];
    pthread_t th[MAXT];
    long calls;
    uint64_t seed;
    int i, f, g, exempt, mism = 0, pairs = 0, custom;
    long total = 0, maxpar = 0, fam[NFAM];
    unsigned char ov[NFAM][NFAM];
    long leak = 0;
    if (argc < 5) { fprintf(stderr, "usage: cjv_tsan threads calls seed default|custom\n"); return 2; }
    nthreads = atoi(argv[1]); calls = atol(argv[2]); seed = strtoull(argv[3], NULL, 10); custom = !strcmp(argv[4], "custom");
    if (nthreads < 1 || nthreads > MAXT) return 2;
    if (custom) { cJSON_Hooks hk; hk.malloc_fn = h_malloc; hk.free_fn = h_free; cJSON_InitHooks(&hk); }   /* before threads start */
    exempt = exempt_error_position();
    pthread_barrier_init(&bar, NULL, (unsigned)nthreads);
    for (i = 0; i < nthreads; i++) {
        ctx[i].tid = i; ctx[i].seed = seed * 1000 + (uint64_t)i; ctx[i].calls = calls; ctx[i].concurrent = 1;
        pthread_create(&th[i], NULL, thread_main, &ctx[i]);
    }
    for (i = 0; i < nthreads; i++) pthread_join(th[i], NULL);
    /* the same programs, alone */
    for (i = 0; i < nthreads; i++) {
        seq[i].tid = i; seq[i].seed = ctx[i].seed; seq[i].calls = calls; seq[i].concurrent = 0;
        run_program(&seq[i]);
        if (seq[i].digest != ctx[i].digest) mism++;
    }
    memset(ov, 0, sizeof ov); memset(fam, 0, sizeof fam);
    for (i = 0; i < nthreads; i++) {
        for (f = 0; f < NFAM; f++) { fam[f] += ctx[i].fam_calls[f]; total += ctx[i].fam_calls[f]; for (g = 0; g < NFAM; g++) ov[f][g] |= ctx[i].overlap[f][g]; }
        if (ctx[i].max_parallel > maxpar) maxpar = ctx[i].max_parallel;
        leak += ctx[i].allocs - ctx[i].frees;
    }
    for (f = 0; f < NFAM; f++) for (g = 0; g < NFAM; g++) pairs += ov[f][g];
    printf("{\"threads\":%d,\"calls\":%ld,\"digest_mismatches\":%d,\"exempted_error_position\":%d,\"overlap_pairs\":%d,\"overlap_pairs_possible\":%d,\"max_threads_inside_library\":%ld,\"hooks\":\"%s\",\"alloc_balance\":%ld,\"families\":{",
           nthreads, total, mism, exempt, pairs, NFAM * NFAM, maxpar, custom ? "custom" : "default", leak);
    for (f = 0; f < NFAM; f++) printf("%s\"%s\":%ld", f ? "," : "", FAM[f], fam[f]);
    printf("},\"missing_overlaps\":[");
    { int first = 1; for (f = 0; f < NFAM; f++) for (g = 0; g < NFAM; g++) if (!ov[f][g]) { printf("%s\"%s|%s\"", first ? "" : ",", FAM[f], FAM[g]); first = 0; } }
    printf("]}\n");
    return mism ? 1 : 0;
}
