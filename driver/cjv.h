/* cjv.h - shared declarations of the cJSON verification driver.
 *
 * The driver links the *real* cJSON.c / cJSON_Utils.c from the tree under test.  Everything
 * here is monitor code: ledger allocator, guard-page arenas, signal handlers, the structural
 * walker and the tree-notation (TN) dumper.  Nothing in this directory is given to the
 * library; it only watches it.
 */
#ifndef CJV_H
#define CJV_H

#include <stddef.h>
#include <errno.h>
#include <stdint.h>
#include <stdio.h>
#include "cJSON.h"
#include "cJSON_Utils.h"

#if defined(__SANITIZE_ADDRESS__)
#define CJV_ASAN 1
#elif defined(__has_feature)
#if __has_feature(address_sanitizer)
#define CJV_ASAN 1
#endif
#endif
#ifndef CJV_ASAN
#define CJV_ASAN 0
#endif

#if defined(__has_feature)
#if __has_feature(memory_sanitizer)
#define CJV_MSAN 1
#endif
#endif
#ifndef CJV_MSAN
#define CJV_MSAN 0
#endif

#if defined(__SANITIZE_THREAD__)
#define CJV_TSAN 1
#elif defined(__has_feature)
#if __has_feature(thread_sanitizer)
#define CJV_TSAN 1
#endif
#endif
#ifndef CJV_TSAN
#define CJV_TSAN 0
#endif

/* guard pages + poisoning quarantine only make sense without a sanitizer runtime that does
 * the same job better */
#define CJV_PLAIN (!CJV_ASAN && !CJV_MSAN && !CJV_TSAN)

/* ---- logging / verdicts ---- */
extern FILE *cjv_log;               /* result log (one line per record) */
extern long cjv_case_id;            /* current case id */
extern long cjv_op_idx;             /* index of op within the case */
extern const char *cjv_cur_call;    /* name of library call in progress (or NULL) */
extern volatile int cjv_in_lib;     /* 1 while a library call is in progress */
extern volatile int cjv_walking;    /* >0 while a monitor follows pointers of library structures */
#define WALK_BEGIN() (cjv_walking++)
#define WALK_END()   (cjv_walking--)
extern long cjv_violations;         /* number of V lines written */

void cjv_violation(const char *key, const char *fmt, ...) __attribute__((format(printf, 2, 3)));
void cjv_fatal(const char *fmt, ...) __attribute__((format(printf, 1, 2), noreturn)); /* harness failure: exit 2 */

/* errno is whatever earlier, unrelated calls left in it: a case can ask for a given stale value
 * to be in place at the start of every library call (results must not depend on it) */
extern int cjv_errno_preset;
#define LIB_BEGIN(name) do { cjv_cur_call = (name); cjv_in_lib = 1; if (cjv_errno_preset) errno = cjv_errno_preset; } while (0)
#define LIB_END()       do { cjv_in_lib = 0; } while (0)
/* cJSON_bool is an int: every non-zero value means "true".  Arguments that are true are passed
 * as 1, 2, -1 or 256, chosen from the case id and op index (so a replay repeats the choice). */
int cjv_truthy(void);
#define TRU(x) ((x) ? cjv_truthy() : 0)

/* real libc allocator (the library objects are linked with --wrap, see cjv_mon.c) */
void *__real_malloc(size_t);
void  __real_free(void *);
void *__real_realloc(void *, size_t);
void *__real_calloc(size_t, size_t);
void *xmalloc(size_t n);            /* driver-owned memory, never seen by the ledger */
void *xrealloc(void *p, size_t n);
void  xfree(void *p);

/* ---- growable byte buffer (driver-owned) ---- */
typedef struct { unsigned char *p; size_t n, cap; } bbuf;
void bb_reset(bbuf *b);
void bb_put(bbuf *b, const void *d, size_t n);
void bb_putc(bbuf *b, int c);
void bb_puts(bbuf *b, const char *s);
void bb_hex(bbuf *b, const void *d, size_t n);
void bb_printf(bbuf *b, const char *fmt, ...) __attribute__((format(printf, 2, 3)));
void bb_free(bbuf *b);
uint32_t cjv_crc32(const void *d, size_t n);

/* ---- ledger allocator (M4/M5) ---- */
enum { ORG_LIBC = 1, ORG_HOOK = 2, ORG_ARENA = 3 };
typedef struct {
    long requests;          /* allocation requests seen (malloc+realloc+hook) */
    long frees;             /* non-NULL releases */
    long free_null;         /* release(NULL) */
    long live_blocks;
    long live_bytes;
    long peak_blocks;
    long wrap_malloc, wrap_calloc, wrap_realloc, wrap_free;   /* libc calls issued by library code */
    long hook_malloc, hook_free;                              /* user hook calls issued by library code */
    long fail_fired;        /* failpoints that fired */
    long bad_free;          /* double / foreign / interior frees seen */
} led_stats;
extern led_stats led;
void  led_init(void);
void  led_case_begin(void);
void  led_case_end(void);                 /* verifies quarantine poison / canaries, releases */
void *led_hook_malloc(size_t n);          /* custom hooks, malloc-backed */
void  led_hook_free(void *p);
void *led_arena_malloc(size_t n);         /* custom hooks, own mmap arena (blocks not libc's) */
void  led_arena_free(void *p);
void *led_hook_malloc_libc(size_t n);     /* user malloc that is libc-compatible (only-malloc configuration) */
void  led_hook_free_libc(void *p);        /* user free that is libc-compatible (only-free configuration) */
uint32_t led_serial(void);
long  led_live_since(uint32_t serial);    /* live blocks with serial > given */
int   led_lookup(const void *p, size_t *size, int *origin); /* 1 live, 0 unknown, -1 freed */
int   led_mark(const void *p, uint32_t walk_id);            /* 1 first visit, 0 already marked in this walk, -1 not live */
void  led_arm_fail(long k);               /* fail the k-th request from now (k>=1); 0 = count only */
long  led_armed_requests(void);           /* requests seen since arming */
int   led_armed_fired(void);
void  led_disarm(void);
int   led_fault_mode(void);                /* a failpoint is armed: secondary checks that allocate are skipped */
extern int led_expect_origin;             /* origin that allocations inside library calls must have (0 = any) */

/* ---- guard-page arenas (M1/M2/M6) ---- */
enum { GP_END = 0, GP_START = 1 };        /* which edge of the data touches the guard page */
typedef struct { unsigned char *map; size_t maplen; unsigned char *data; size_t n; int placement; int ro; } garena;
/* returns accessible copy of [src, src+n) whose last (GP_END) or first (GP_START) byte touches a
 * PROT_NONE page; readonly => PROT_READ.  Under ASan/MSan: exact-size heap block instead. */
unsigned char *ga_make(garena *g, const void *src, size_t n, int placement, int readonly);
void ga_release(garena *g);
int  ga_classify_fault(const void *addr, char *out, size_t outlen); /* used by the signal handler */
/* borrowed-memory arena: read-only during library calls */
void  bor_reset(void);
const char *bor_add(const void *src, size_t n);   /* returns stable address inside the arena */
int   bor_contains(const void *p);
uint32_t bor_checksum(void);

/* ---- signals / watchdog ---- */
void mon_install_handlers(void);
void mon_alarm(unsigned seconds);

/* ---- painted stack (M8) ---- */
typedef void (*stack_fn)(void *);
size_t stack_run(stack_fn fn, void *arg);  /* runs fn(arg) on a painted 16 MiB stack; returns bytes used */

/* ---- structural walker + TN dump (M7) ---- */
#define WF_ROOT      1     /* next == prev == NULL expected */
#define WF_NOLEDGER  2     /* do not check block liveness (e.g. ledger not in force) */
int  wf_check(const cJSON *root, int flags, const char *what);  /* 0 ok, else violation logged */
int  tn_dump(bbuf *out, const cJSON *root);                      /* 0 ok, -1 step cap hit (cycle) */
long tn_preorder_index(const cJSON *root, const cJSON *target);  /* -1 if not found */
cJSON *tn_build(const char **pp);
void   tn_release_pinned(void);                               /* items referenced by built trees */                                /* build through the public API from TN text */

#endif
