/* cjv_vm.h - VM state shared between cjv_vm.c (API ops) and cjv_bat.c (composite batteries) */
#ifndef CJV_VM_H
#define CJV_VM_H
#include "cjv.h"

#define NSLOT 256
extern cJSON *slot[NSLOT];
extern int vm_thorough;          /* 1 => wider sweeps inside batteries */

typedef struct { char **tok; int n; } toks;

/* token decoding */
int    tk_slot(const char *t);                   /* slot index, -1 for "~" (NULL) */
cJSON *tk_item(const char *t);                   /* slot content or NULL for "~" */
long   tk_int(const char *t);
double tk_dbl(const char *t);                    /* 16 hex digits of the bit pattern */
/* bytes: "=hex", "*k:hexA:hexM:hexB" (A x k + M + B x k), "~" => NULL.  Result is driver-owned,
 * always followed by one extra zero byte that is not counted in *n. */
unsigned char *tk_bytes(const char *t, size_t *n);

void rlog(const char *fmt, ...) __attribute__((format(printf, 1, 2)));  /* "R case op ..." */

/* batteries (cjv_bat.c) */
void op_pbat(toks *t);
void op_pstack(toks *t);
void op_prbat(toks *t);
void op_minify(toks *t);
void op_dupx(toks *t);
void op_cmpx(toks *t);
void op_deepchain(toks *t);
void op_stackop(toks *t);

/* structural equivalence used by the print/parse round trip (C04 tolerances) */
int tree_equiv(const cJSON *a, const cJSON *b, int nonfinite_as_null, char *why, size_t whylen);

#endif
