/* cjv_fuzz.c - libFuzzer entry (thorough tier of C01 / C10 / C13): coverage-guided inputs, the same
 * in-process oracles as the parse and minify batteries in reduced form.  Built with
 *   clang -fsanitize=fuzzer,address,undefined -fno-sanitize=pointer-overflow
 * so every buffer is an exact-size heap block with red zones.  A violated oracle prints
 * "CJV-VIOLATION <key>" and aborts, which makes libFuzzer keep the input as an artifact. */
#include <stdint.h>
#include <stdio.h>
#include <stdlib.h>
#include <string.h>
#include "cJSON.h"
#include "cJSON_Utils.h"

static long live_blocks;
static void *f_malloc(size_t n) { void *p = malloc(n); if (p) live_blocks++; return p; }
static void f_free(void *p) { if (p) live_blocks--; free(p); }

static void die(const char *key, const char *detail)
{
    fprintf(stderr, "CJV-VIOLATION %s %s\n", key, detail);
    abort();
}

static char *print_all(cJSON *t)
{
    char *a = cJSON_PrintUnformatted(t), *b = cJSON_Print(t), *c = cJSON_PrintBuffered(t, 1, 1);
    if (!a || !b || !c) die("print/null-result", "a parsed tree failed to print");
    if (strcmp(b, c) != 0) die("print/buffered-differs", "PrintBuffered(1,1) != Print");
    {
        size_t la = strlen(a);
        char *buf = malloc(la + 6);
        if (!cJSON_PrintPreallocated(t, buf, (int)(la + 6), 0) || memcmp(buf, a, la + 1) != 0) die("prealloc/differs", "PrintPreallocated(len+6) differs");
        free(buf);
    }
    cJSON_free(b); cJSON_free(c);
    return a;
}

static void one_parse(const uint8_t *data, size_t size, int with_nul, int rnt)
{
    size_t len = size + (with_nul ? 1 : 0);
    char *buf = malloc(len ? len : 1);         /* exact size: red zone right behind the last byte */
    const char *end = (const char *)-1, *err;
    cJSON *r;
    long live0 = live_blocks;
    if (size) memcpy(buf, data, size);
    if (with_nul) buf[size] = 0;
    r = cJSON_ParseWithLengthOpts(buf, len, &end, rnt);
    err = cJSON_GetErrorPtr();
    if (r) {
        char *text;
        cJSON *r2;
        if (err) die("c10/errptr-after-success", "");
        if (end < buf || end > buf + len) die("c10/end-out-of-range", "");
        /* prefix before the parse end parses to a tree that prints identically */
        text = print_all(r);
        {
            size_t pl = (size_t)(end - buf);
            char *pb = malloc(pl ? pl : 1);
            char *t2;
            if (pl) memcpy(pb, buf, pl);
            r2 = cJSON_ParseWithLength(pb, pl);
            if (!r2) die("c10/prefix-reparse-null", "");
            t2 = cJSON_PrintUnformatted(r2);
            if (!t2 || strcmp(t2, text) != 0) die("c10/prefix-reparse-differs", "");
            cJSON_free(t2); cJSON_Delete(r2); free(pb);
        }
        /* round trip of the printed text */
        r2 = cJSON_Parse(text);
        if (!r2) die("roundtrip/reparse-null", text);
        {
            char *t3 = cJSON_PrintUnformatted(r2);
            if (!t3 || strcmp(t3, text) != 0) die("roundtrip/not-a-fixed-point", text);
            cJSON_free(t3);
        }
        cJSON_Delete(r2);
        cJSON_free(text);
        cJSON_Delete(r);
        if (live_blocks != live0) die("leak/parse-print-delete", "");
    } else {
        if (!err) die("c10/errptr-null-after-failure", "");
        if (err < buf || err > buf + (len ? len - 1 : 0)) die("c10/errptr-out-of-range", "");
        if (end != err) die("c10/end-ne-errptr", "");
        if (live_blocks != live0) die("leak/parse-reject", "");
    }
    free(buf);
}

static void one_minify(const uint8_t *data, size_t size)
{
    size_t n = 0, l1;
    char *buf, *copy;
    while (n < size && data[n]) n++;
    buf = malloc(n + 1);
    memcpy(buf, data, n); buf[n] = 0;
    cJSON_Minify(buf);
    l1 = strnlen(buf, n + 1);
    if (l1 > n) die("minify/unterminated", "");
    /* when the input is valid commented JSON the result must parse to the same tree as the
     * result of minifying again (idempotence) */
    copy = malloc(l1 + 1);
    memcpy(copy, buf, l1 + 1);
    {
        cJSON *a = cJSON_Parse(copy);
        if (a) {
            cJSON_Minify(copy);
            if (strcmp(copy, buf) != 0) die("minify/not-idempotent", buf);
            cJSON_Delete(a);
        }
    }
    free(copy); free(buf);
}

int LLVMFuzzerInitialize(int *argc, char ***argv);
int LLVMFuzzerInitialize(int *argc, char ***argv)
{
    cJSON_Hooks h;
    (void)argc; (void)argv;
    h.malloc_fn = f_malloc; h.free_fn = f_free;
    if (getenv("CJV_FUZZ_DEFAULT_ALLOC") == NULL) cJSON_InitHooks(&h);
    return 0;
}

int LLVMFuzzerTestOneInput(const uint8_t *data, size_t size);
int LLVMFuzzerTestOneInput(const uint8_t *data, size_t size)
{
    if (size < 1) return 0;
    switch (data[0] & 7) {
    case 0: one_parse(data + 1, size - 1, 0, 0); break;
    case 1: one_parse(data + 1, size - 1, 0, 1); break;
    case 2: one_parse(data + 1, size - 1, 1, 0); break;
    case 3: one_parse(data + 1, size - 1, 1, 1); break;
    case 4: case 5: one_minify(data + 1, size - 1); break;
    default: one_parse(data + 1, size - 1, 1, 1); one_minify(data + 1, size - 1); break;
    }
    return 0;
}
