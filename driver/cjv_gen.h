#ifndef CJV_GEN_H
#define CJV_GEN_H
#include <stdint.h>
#include <stddef.h>
#include "cJSON.h"
typedef struct { uint64_t s; } grng;
uint64_t g_rnd(grng *r);
unsigned g_below(grng *r, unsigned n);
cJSON *g_tree(grng *r, int depth, int distinct_keys);
uint64_t g_fnv(uint64_t h, const void *d, size_t n);
#endif
