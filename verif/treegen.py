"""Random model trees (for the construction API) and hostile doubles."""
import math
import struct
from .tn import Node, d2b, b2d

DBL_MAX_BITS = 0x7fefffffffffffff


def hostile_double(rng, finite=True):
    r = rng.random()
    if r < 0.06:
        # decade and binade boundaries, +- a few ulps
        if rng.random() < 0.5:
            x = float('1e%d' % rng.randrange(-25, 26))
        else:
            x = 2.0 ** rng.randrange(-60, 70)
        x = b2d(d2b(x) + rng.choice([-2, -1, 0, 0, 1, 2]))
        return -x if rng.random() < 0.3 else x
    if r < 0.09:
        # the int range seen from both sides, with fractions
        base = rng.choice([2147483647, -2147483648, 2147483646, -2147483647, 0, 1, -1])
        return base + rng.choice([-0.5, 0.5, -0.25, 0.75, 1e-9, -1e-9, 0.9999999, -0.9999999])
    if r < 0.18:
        return float(rng.choice([0, 1, -1, 2, 7, 10, 100, 255, 256, 65535, 2147483647, 2147483646, -2147483648, -2147483647,
                                 2147483648, -2147483649, 4294967295, 4294967296, 999999999999999, 1000000000000000,
                                 -999999999999999, 9007199254740991, 9007199254740992, 9007199254740993, 1e15 + 2,
                                 123456789012345, 12345678901234567890, 1e20, 1e21, 1e22]))
    if r < 0.26:
        return rng.choice([-0.0, 0.0, 0.1, 0.2, 0.3, 0.1 + 0.2, 0.5, 1.5, 1 / 3, 2 / 3, 3.14, 1e-5, 1e-7, 123.456, 5e-324, 2.2250738585072014e-308,
                           2.225073858507201e-308, 1.7976931348623157e308, 4.35, 0.000001, 1e300, 1e-300, 9.999999999999999e22, 1e23])
    if r < 0.40:
        # decimal fractions that need 15, 16 or 17 significant digits
        digs = rng.choice([1, 2, 5, 14, 15, 16, 17])
        m = rng.randrange(10 ** (digs - 1), 10 ** digs)
        e = rng.randrange(-30, 30)
        return float('%de%d' % (m, e - digs)) * rng.choice([1, -1])
    if r < 0.50:
        # integers near interesting boundaries
        base = rng.choice([2 ** 31, -2 ** 31, 10 ** 15, -10 ** 15, 2 ** 53, 2 ** 63, 2 ** 64, 0, 10 ** 14])
        return float(base + rng.randrange(-5, 6))
    if r < 0.58:
        # top binade, down to a few thousand ulps below DBL_MAX (random sampling never gets here)
        k = rng.choice([0, 1, 2, 3, 10, 100, 500, 1000, 1500, 2000, 3000, rng.randrange(0, 5000), rng.randrange(0, 2 ** 40)])
        x = b2d(DBL_MAX_BITS - k)
        return -x if rng.random() < 0.3 else x
    if r < 0.64:
        # subnormals and the smallest normals
        bits = rng.randrange(1, 1 << 53) if rng.random() < 0.5 else rng.randrange(1, 5000)
        x = b2d(bits)
        return -x if rng.random() < 0.3 else x
    if r < 0.70 and not finite:
        return rng.choice([math.inf, -math.inf, math.nan])
    if r < 0.80:
        # integer-valued, whole int range and just outside
        v = rng.randrange(-2 ** 31 - 3, 2 ** 31 + 3)
        return float(v)
    # random bit pattern
    while True:
        bits = rng.getrandbits(64)
        x = b2d(bits)
        if x == x and not math.isinf(x):
            return x


def rand_bytes_string(rng, valid_utf8, maxlen=10):
    n = rng.choice([0, 0, 1, 1, 2, 3, 5, 8, rng.randrange(0, maxlen + 1)])
    if rng.random() < 0.04:
        n = rng.choice([254, 255, 256, 257, 300, 511, 512, 513])   # around the printer's default buffer size
    if valid_utf8:
        cps = []
        for _ in range(n):
            r = rng.random()
            if r < 0.3:
                cps.append(rng.choice([0x22, 0x5c, 0x2f, 8, 12, 10, 13, 9, 1, 0x1f, 0x7f, 0x20]))
            elif r < 0.75:
                cps.append(rng.randrange(0x20, 0x7f))
            elif r < 0.9:
                cp = rng.randrange(0x80, 0x10000)
                cps.append(cp if not 0xd800 <= cp <= 0xdfff else 0xfffd)
            else:
                cps.append(rng.randrange(0x10000, 0x110000))
        return ''.join(chr(c) for c in cps).encode('utf-8')
    out = bytearray()
    for _ in range(n):
        r = rng.random()
        if r < 0.3:
            out.append(rng.choice(b'"\\/\b\f\n\r\t\x01\x1f\x7f '))
        elif r < 0.6:
            out.append(rng.randrange(0x20, 0x7f))
        else:
            out.append(rng.randrange(1, 256))
    return bytes(out)


def only_escapes_string(rng):
    n = rng.randrange(1, 12)
    return bytes(rng.choice(b'"\\\b\f\n\r\t\x01\x02\x1f\x0b') for _ in range(n))


KEY_POOL = [b'', b'a', b'A', b'b', b'B', b'ab', b'aB', b'key', b'a/b', b'm~n', b'0', b'1', b'01', b'-', b' ', b'~', b'/', b'\xc3\xa9', b'"', b'\\', b'\n',
            b'k[', b'k]', b'k@', b'k^', b'k_', b'[', b'@x', b'z}']


def gen_tree(rng, depth=0, maxdepth=4, valid_utf8=False, finite=True, distinct_keys=False, const_keys=False, fold_distinct=False):
    """-> Node (root without key)"""
    r = rng.random()
    if depth >= maxdepth:
        r *= 0.6
    if r < 0.07:
        return Node('z')
    if r < 0.12:
        return Node('t')
    if r < 0.17:
        return Node('f')
    if r < 0.40:
        return Node.num(hostile_double(rng, finite))
    if r < 0.60:
        if rng.random() < 0.1:
            return Node.string(only_escapes_string(rng))
        return Node.string(rand_bytes_string(rng, valid_utf8))
    if r < 0.80:
        n = rng.choice([0, 0, 1, 2, 3, 4, 6])
        node = Node('a')
        for _ in range(n):
            c = gen_tree(rng, depth + 1, maxdepth, valid_utf8, finite, distinct_keys, const_keys, fold_distinct)
            c.parent = node
            node.kids.append(c)
        return node
    n = rng.choice([0, 0, 1, 2, 3, 4, 6])
    node = Node('o')
    used = set()
    for _ in range(n):
        k = rng.choice(KEY_POOL) if rng.random() < 0.6 else rand_bytes_string(rng, valid_utf8, 5)
        kk = k.lower() if fold_distinct else k
        if distinct_keys and kk in used:
            continue
        used.add(kk)
        c = gen_tree(rng, depth + 1, maxdepth, valid_utf8, finite, distinct_keys, const_keys, fold_distinct)
        c.key = k
        c.kconst = const_keys and rng.random() < 0.3
        c.parent = node
        node.kids.append(c)
    return node


def has_nonfinite(n):
    stack = [n]
    while stack:
        m = stack.pop()
        if m.kind == 'n':
            x = m.dbl
            if x != x or math.isinf(x):
                return True
        if m.kids:
            stack.extend(m.kids)
    return False


def count_nodes(n):
    c = 0
    stack = [n]
    while stack:
        m = stack.pop()
        c += 1
        if m.kids:
            stack.extend(m.kids)
    return c


def ending_shapes():
    """trees whose printed text ends in each token kind / number path / closing layout (C09)"""
    S = [Node('z'), Node('t'), Node('f'), Node.num(0.0), Node.num(-1.0), Node.num(2147483647.0), Node.num(-2147483648.0),
         Node.num(0.5), Node.num(0.1), Node.num(1e300), Node.num(1 / 3), Node.num(0.1 + 0.2), Node.num(5e-324), Node.num(1.7976931348623157e308),
         Node.num(-1.2345678901234567e-300), Node.num(math.nan), Node.num(math.inf), Node.num(1e15), Node.num(123456789012345680.0),
         Node.string(b''), Node.string(b'abc'), Node.string(b'"'), Node.string(b'\\'), Node.string(b'\n'), Node.string(b'\x01'), Node.string(b'a\x1f'),
         Node.string(b'\xff\xfe'), Node.string(b'x' * 255), Node.string(b'\x02' * 50), Node('a'), Node('o')]
    out = list(S)
    for s in S:
        a = Node('a')
        a.kids = [s.clone()]
        out.append(a)
        a2 = Node('a')
        a2.kids = [Node.num(1.0), s.clone()]
        out.append(a2)
        o = Node('o')
        c = s.clone()
        c.key = b'k'
        o.kids = [c]
        out.append(o)
        o2 = Node('o')
        c1 = Node('t', key=b'a\n')
        c2 = s.clone()
        c2.key = b''
        o2.kids = [c1, c2]
        out.append(o2)
    # formatted closings at depth 0..5
    for d in range(1, 6):
        cur = Node('o')
        for _ in range(d):
            o = Node('o')
            cur.key = b'n'
            o.kids = [cur]
            cur = o
        out.append(cur)
        cur = Node('a')
        for i in range(d):
            if i % 2:
                o = Node('a')
                cur.key = None
                o.kids = [cur]
            else:
                o = Node('o')
                cur.key = b'q'
                o.kids = [Node.num(float(i), key=b'z'), cur]
            cur = o
        out.append(cur)
    return out


has_nonfinite_view = has_nonfinite


def comparable(n):
    """cJSON_Compare is only the intended relation for finite numbers and objects whose keys are
    pairwise distinct (after case folding, when compared case-insensitively)"""
    stack = [n]
    while stack:
        m = stack.pop()
        if m.kind == 'n':
            x = m.dbl
            if x != x or math.isinf(x):
                return False
        if m.kind == 'o':
            ks = [k.key.lower() if k.key is not None else None for k in m.kids]
            if None in ks or len(set(ks)) != len(ks):
                return False
        if m.kids:
            stack.extend(m.kids)
    return True
