"""C08 - any single allocation failure makes the call fail cleanly.  Fault enumeration: for every
scenario the driver re-runs the block once per allocation request k = 1..N of the target call
(exhaustive in k), failing exactly that request."""
import random
from . import jsonref, treegen
from .runner import ShardOut, Violation, run_batch, mechanical_violations, case_witness, SEED, HarnessFailure
from .tn import Node, to_tn, hx, d2b

SMOKE = ['parse 90 2 =5b312c7b2261223a2278227d5d 0', 'chk 90', 'print 90 1', 'del 90']


def plan(prop, tier):
    q = tier == 'quick'
    n = 16 if q else 64
    per = 6 if q else 60        # parameterisations of every scenario per shard
    return ['asan', 'plain', 'efence'], [('fault', SEED * 1000 + i, per) for i in range(n)]


def tree_with_strings(rng):
    o = treegen.gen_tree(rng, maxdepth=rng.choice([1, 2, 3]), valid_utf8=False, finite=True)
    if o.kind != 'o':
        w = Node('o')
        o.key = b'root'
        w.kids = [o]
        o = w
    s = Node.string(bytes(rng.randrange(1, 256) for _ in range(rng.choice([3, 40, 300]))), key=b'long')
    o.kids.insert(rng.randrange(len(o.kids) + 1), s)
    c = Node('t', key=b'ck', kconst=True)
    o.kids.append(c)
    # constant keys on members that own further memory: a failure in the middle of copying or
    # releasing such a member must not touch the key
    cs = Node.string(bytes(rng.randrange(1, 256) for _ in range(rng.choice([1, 20]))), key=b'const-key-string')
    cs.kconst = True
    o.kids.insert(rng.randrange(len(o.kids) + 1), cs)
    cw = Node('w', key=b'const-key-raw', kconst=True, sval=b'[1, 2]')
    o.kids.insert(rng.randrange(len(o.kids) + 1), cw)
    ca = Node('a', key=b'const-key-array', kconst=True)
    ca.kids = [Node.string(b'inner'), Node.num(1.0)]
    o.kids.insert(rng.randrange(len(o.kids) + 1), ca)
    rs = Node('s', key=b'string-reference', ref=True, sval=b'borrowed text')
    o.kids.append(rs)
    return o


def scenarios(rng):
    """-> list of (name, setup ops, target op, after ops, pre slots)  - slots 1..9 pre-existing, 10.. results"""
    S = []
    doc, _v = jsonref.gen_text(rng, maxdepth=3)
    docs = [doc, b'{"k1":"' + b'x' * rng.choice([5, 300]) + b'","k2":[1,2,{"a":null}],"k3":"\\u00e9\\n"}', b'[[[[1]]],{"a":{"b":{"c":"d"}}}]']
    for v in range(4):
        t = rng.choice(docs)
        S.append(('parse/%d' % v, [], 'parse 10 %d %s 0' % (v, hx(t)), ['onok chk 10', 'onok del 10'], []))
    # long tokens: number literals around and beyond the 63 characters the parser looks at, long keys
    L = rng.choice([62, 63, 64, 65, 100, 300])
    lit = rng.choice([b'1' * L, b'0.' + b'3' * (L - 2), b'-' + b'9' * (L - 1), b'1e' + b'0' * (L - 3) + b'5', b'1' + b'0' * (L - 4) + b'e-9'])
    for v, t in enumerate((lit, b'{"id":[1,' + lit + b',"tail"],"k' + b'y' * L + b'":' + lit + b'}')):
        S.append(('parse/long-tokens-%d' % v, [], 'parse 10 %d %s 0' % (rng.randrange(4), hx(t)), ['onok chk 10', 'onok del 10'], []))
    tr = tree_with_strings(rng)
    b1 = ['build 1 ' + to_tn(tr)]
    for name, op in (('print/formatted', 'print 1 0'), ('print/unformatted', 'print 1 1'), ('print/buffered-0', 'print 1 2 0 %d' % rng.randrange(2)),
                     ('print/buffered-1', 'print 1 2 1 %d' % rng.randrange(2)), ('print/buffered-16', 'print 1 2 16 1'), ('print/buffered-big', 'print 1 2 100000 0')):
        S.append((name, b1, op, [], [1]))
    sval = bytes(rng.randrange(1, 256) for _ in range(rng.choice([0, 3, 50])))
    for name, op in (('create/null', 'cnull 10'), ('create/true', 'ctrue 10'), ('create/false', 'cfalse 10'), ('create/bool', 'cbool 10 1'),
                     ('create/number', 'cnum 10 %016x' % d2b(treegen.hostile_double(rng))), ('create/string', 'cstr 10 ' + hx(sval)),
                     ('create/raw', 'craw 10 ' + hx(sval)), ('create/array', 'carr 10'), ('create/object', 'cobj 10'),
                     ('create/stringref', 'cstrref 10 ' + hx(sval)), ('create/arrayref', 'carrref 10 1'), ('create/objectref', 'cobjref 10 1'),
                     ('bulk/ints', 'cints 10 %d %s' % (3, '1 2 3')), ('bulk/floats', 'cfloats 10 2 3fc00000 40000000'),
                     ('bulk/doubles', 'cdoubles 10 3 %016x %016x %016x' % (d2b(1.5), d2b(-2.0), d2b(1e300))),
                     ('bulk/strings', 'cstrs 10 3 %s %s %s' % (hx(b'a'), hx(sval), hx(b'')))):
        S.append((name, b1 if 'ref' in name else [], op, ['onok chk 10', 'onok del 10'], [1] if 'ref' in name else []))
    key = rng.choice([b'k', b'', b'new key', b'long'])
    for name, op in (('helper/null', 'hnull 1 %s 10' % hx(key)), ('helper/true', 'htrue 1 %s 10' % hx(key)), ('helper/false', 'hfalse 1 %s 10' % hx(key)),
                     ('helper/bool', 'hbool 1 %s 0 10' % hx(key)), ('helper/number', 'hnum 1 %s %016x 10' % (hx(key), d2b(2.5))),
                     ('helper/string', 'hstr 1 %s %s 10' % (hx(key), hx(sval))), ('helper/raw', 'hraw 1 %s %s 10' % (hx(key), hx(b'[1]'))),
                     ('helper/object', 'hobj 1 %s 10' % hx(key)), ('helper/array', 'harr 1 %s 10' % hx(key))):
        S.append((name, b1, op, [], [1]))
    item = ['cstr 2 ' + hx(b'item')]
    S.append(('add/to-object', b1 + item, 'addo 1 %s 2' % hx(key), ['onfail chk 2', 'onfail del 2'], [1]))
    # the item arrives with a key of its own: owned (was a member elsewhere) or constant
    owned_key = item + ['cobj 3', 'addo 3 =6f6c646b6579 2', 'deta 3 0 4', 'del 3']
    const_key = item + ['cobj 3', 'addocs 3 =636f6e73746b6579 2', 'deta 3 0 4', 'del 3']
    for nm, pre_item in (('owned-key', owned_key), ('const-key', const_key)):
        S.append(('add/to-object/item-with-%s' % nm, b1 + pre_item, 'addo 1 %s 2' % hx(key), ['onfail chk 2', 'onfail del 2'], [1, -2]))
        S.append(('add/to-object-cs/item-with-%s' % nm, b1 + pre_item, 'addocs 1 %s 2' % hx(key), ['onfail chk 2', 'onfail del 2'], [1, -2]))
        S.append(('replace/in-object/item-with-%s' % nm, b1 + pre_item, 'repo 1 =6c6f6e67 2', ['onfail chk 2', 'onfail del 2'], [1, -2]))
        S.append(('replace/in-object-cs/item-with-%s' % nm, b1 + pre_item, 'repocs 1 =6c6f6e67 2', ['onfail chk 2', 'onfail del 2'], [1, -2]))
        S.append(('addref/to-object/target-with-%s' % nm, b1 + pre_item, 'addrefo 1 %s 2' % hx(key), ['del 1', 'chk 2', 'del 2', 'clr 1'], [1, 2]))
    S.append(('add/to-object-own-key', b1 + ['cobj 3', 'addo 3 %s 2' % hx(b'own'), 'deta 3 0 4', 'del 3'] if False else b1 + item + ['cobj 3', 'addo 3 =6f776e 2', 'deta 3 0 4', 'del 3'],
              'addo_self 1 2', ['onfail chk 2', 'onfail del 2'], [1]))
    tgt = ['build 2 ' + to_tn(treegen.gen_tree(rng, maxdepth=2))]
    S.append(('addref/to-array', ['carr 1', 'cnum 3 3ff0000000000000', 'adda 1 3'] + tgt, 'addrefa 1 2', ['del 1', 'chk 2', 'del 2', 'clr 1'], [1, 2]))
    S.append(('addref/to-object', b1 + tgt, 'addrefo 1 %s 2' % hx(key), ['del 1', 'chk 2', 'del 2', 'clr 1'], [1, 2]))
    # the referenced item is a member of another document with siblings after it: a failed call must
    # leave that document alone
    host = Node('a')
    host.kids = [Node.string(b'first'), treegen.gen_tree(rng, maxdepth=2), Node.num(2.0), Node.string(b'last')]
    hosto = Node('o')
    hosto.kids = [Node.string(b'v1', key=b'm1'), Node('a', key=b'm2'), Node('t', key=b'm3')]
    for hn, h in (('array-element', host), ('object-member', hosto)):
        for idx in (0, 1):
            hb = ['build 2 ' + to_tn(h), 'child 3 2 %d' % idx]
            S.append(('addref/to-object/target-is-%s-%d' % (hn, idx), b1 + hb, 'addrefo 1 %s 3' % hx(key), ['del 1', 'chk 2', 'del 2', 'clr 1', 'clr 3'], [1, 2]))
            S.append(('addref/to-array/target-is-%s-%d' % (hn, idx), ['carr 1', 'cnum 4 3ff0000000000000', 'adda 1 4'] + hb, 'addrefa 1 3', ['del 1', 'chk 2', 'del 2', 'clr 1', 'clr 3'], [1, 2]))
    dtree = tree_with_strings(rng)
    S.append(('duplicate/recursive', ['build 1 ' + to_tn(dtree), 'carr 5', 'addrefa 5 1', 'adda 5 1' if False else 'cnull 6'],
              'dup 10 1 1', ['onok chk 10', 'onok del 10', 'del 5', 'del 6'], [1]))
    S.append(('duplicate/with-reference', ['build 1 ' + to_tn(dtree), 'carr 5', 'addrefa 5 1'], 'dup 10 5 1', ['onok chk 10', 'onok del 10', 'del 5'], [1]))
    S.append(('duplicate/node-only', b1, 'dup 10 1 0', ['onok chk 10', 'onok del 10'], [1]))
    S.append(('replace/in-object', b1 + item, 'repo 1 =6c6f6e67 2', ['onfail del 2'], [1]))
    S.append(('replace/in-object-cs', b1 + item, 'repocs 1 =6c6f6e67 2', ['onfail del 2'], [1]))
    S.append(('replace/in-object-missing', b1 + item, 'repocs 1 =6e6f2d737563682d6b6579 2', ['del 2'], [1]))
    S.append(('setstring/longer', ['cstr 1 ' + hx(b'short')], 'setstr 1 ' + hx(b'a much longer value than before ' * rng.choice([1, 10])), [], [1]))
    S.append(('setstring/shorter', ['cstr 1 ' + hx(b'a long enough value')], 'setstr 1 ' + hx(b'tiny'), [], [1]))
    # every relation between the two lengths, also far apart (an implementation may decide to move the value)
    oldlen = rng.choice([1, 8, 63, 64, 65, 100, 300, 5000])
    for nm, newlen in (('much-shorter', rng.choice([0, 1, 2])), ('shorter-by-63', max(oldlen - 63, 0)), ('shorter-by-64', max(oldlen - 64, 0)), ('shorter-by-65', max(oldlen - 65, 0)),
                       ('same-length', oldlen), ('longer-by-1', oldlen + 1), ('much-longer', oldlen + rng.choice([64, 1000]))):
        S.append(('setstring/' + nm, ['cobj 1', 'cstr 2 ' + hx(bytes(rng.randrange(1, 256) for _ in range(oldlen))), 'addo 1 =76 2', 'clr 2', 'geto 1 =76 2'],
                  'setstr 2 ' + hx(bytes(rng.randrange(1, 256) for _ in range(newlen))), ['clr 2'], [1]))
    return S


def build_case(cid, cfg, sc):
    name, setup, target, after, pre = sc
    ops = ['fbegin'] + list(setup)
    idx_pre = {}
    idx_post = {}
    body = list(setup)
    for s in pre:
        idx_pre[s] = len(body)
        body.append(('chk %d' % s) if s > 0 else ('chkn %d' % -s))
    tpos = len(body)
    body.append('ftarget ' + target)
    for s in pre:
        idx_post[s] = len(body)
        body.append(('chk %d' % s) if s > 0 else ('chkn %d' % -s))
        body.append(('text %d 0' % s) if s > 0 else 'size ~')
    smoke_at = len(body)
    body += SMOKE
    body += after
    for s in pre:
        if s > 0 and not any(a.split()[-2:] == ['del', str(s)] or a == 'del %d' % s for a in after):
            body.append('del %d' % s)
    return (cid, cfg, ['fbegin'] + body + ['fend']), {'name': name, 'tpos': tpos, 'pre': idx_pre, 'post': idx_post, 'smoke': list(range(smoke_at, smoke_at + len(SMOKE))), 'nbody': len(body)}


def split_iterations(cl):
    its = {}
    cur = None
    for rec in cl.seq:
        if rec[0] == 'F':
            if rec[1] == 'done':
                cur = None
                continue
            cur = int(rec[1])
            its[cur] = {'R': {}, 'T': None, 'G': None, 'res': None}
        elif cur is None:
            continue
        elif rec[0] == 'R':
            f = rec[2]
            if f and f[0] == 'ftarget':
                its[cur]['T'] = dict(x.split('=') for x in f[1:])
            else:
                if rec[1] not in its[cur]['R']:
                    its[cur]['R'][rec[1]] = f
                else:
                    its[cur]['R'][rec[1]] = f
        elif rec[0] == 'G':
            its[cur]['G'] = rec[2]
    return its


def judge(prop, cl, info, cfg, out, wit, first, ledger_only=False):
    """ledger_only: judge the allocator balance alone (C07: histories in which a request is refused)"""
    its = split_iterations(cl)
    name = info['name']
    if 0 not in its or its[0]['T'] is None:
        out.vios.append(Violation(prop, 'C08/%s/no-baseline' % name, 'the scenario did not run without faults', wit(cl, 0)))
        return
    base = its[0]
    base_failed = base['T'].get('failed') == '1'
    if base_failed and not name.endswith('missing') and not name.startswith('parse/long-tokens'):
        raise HarnessFailure('scenario %s fails even without a fault' % name)
    kp = 'C08' if prop == 'C08' else prop + '/fault'
    N = int(base['T']['requests'])
    nfail = nnormal = 0
    for k in sorted(its):
        if k == 0:
            continue
        it = its[k]
        T = it['T']
        if T is None:
            continue      # died: reported through V records
        out.evals += 1
        fired = T['fired'] == '1'
        failed = T['failed'] == '1'
        tag = '%s k=%d/%d cfg=%s' % (name, k, N, cfg)
        if failed and not fired and not base_failed:
            if ledger_only:
                continue
            out.vios.append(Violation(prop, 'C08/%s/failure-without-fault' % name, tag + ': call failed although no request was refused', wit(cl, info['tpos'])))
            continue
        if failed and (not base_failed or name.startswith('parse/')) and T.get('live_since', '0') != '0':
            out.vios.append(Violation(prop, '%s/%s/leak-on-failure' % (kp, name), tag + ': %s blocks allocated during the failed call are still allocated' % T['live_since'], wit(cl, info['tpos'])))
        if ledger_only:
            if failed and not base_failed:
                nfail += 1
            else:
                nnormal += 1
        elif failed and not base_failed:
            nfail += 1
            for s, ip in info['pre'].items():
                a, b = it['R'].get(ip), it['R'].get(info['post'][s])
                if a != b:
                    out.vios.append(Violation(prop, 'C08/%s/%s' % (name, 'pre-existing-tree-modified' if s > 0 else 'argument-item-modified'), tag + ': %s in slot %d was %s before the failed call and %s after' % ('tree' if s > 0 else 'item', abs(s), a, b), wit(cl, info['tpos'])))
                tb, tk = base['R'].get(info['post'][s] + 1), it['R'].get(info['post'][s] + 1)
                if name.startswith(('print', 'duplicate', 'create', 'bulk', 'parse')) and tb != tk:
                    out.vios.append(Violation(prop, 'C08/%s/pre-existing-text-changed' % name, tag + ': pre-existing tree prints differently after the failed call', wit(cl, info['tpos'])))
        else:
            nnormal += 1
            # completed normally: everything must look exactly like the fault-free run
            for idx, f in base['R'].items():
                if it['R'].get(idx) != f:
                    out.vios.append(Violation(prop, 'C08/%s/result-differs-after-tolerated-fault' % name, tag + ': op %d answered %s, fault-free run %s' % (idx, it['R'].get(idx), f), wit(cl, info['tpos'])))
                    break
        for idx in ([] if ledger_only else info['smoke']):
            if it['R'].get(idx) != base['R'].get(idx):
                out.vios.append(Violation(prop, 'C08/%s/library-unusable-afterwards' % name, tag + ': smoke op %d answered %s instead of %s' % (idx, it['R'].get(idx), base['R'].get(idx)), wit(cl, info['tpos'])))
                break
        if it['G'] is not None and base['G'] is not None and it['G'].get('live') != base['G'].get('live'):
            out.vios.append(Violation(prop, '%s/%s/leak-after-cleanup' % (kp, name), tag + ': %s blocks live after cleaning up, %s in the fault-free run' % (it['G'].get('live'), base['G'].get('live')), wit(cl, info['tpos'])))
    if first:
        out.count('scn:' + name)
        out.count('requests:' + name, N)
        out.count('failret:' + name, nfail)
        out.count('normal:' + name, nnormal)
        out.seen(name, cfg, N, tuple(cl.ops.get(0) or ()))
        out.count('nontrivial', 1 if N >= 1 else 0)
        out.seen(name, cfg, 'x', cl.id)


def run_shard(shard_prop, bins, workdir, tier):
    prop, (kind, seed, count) = shard_prop
    out = ShardOut()
    rng = random.Random('C08-%s' % seed)
    cases = []
    infos = {}
    cid = 0
    for rep in range(count):
        for sc in scenarios(rng):
            for cfg in ('custom', 'default'):
                c, info = build_case(cid, cfg, sc)
                cases.append(c)
                infos[cid] = (info, cfg)
                cid += 1
    for fl, binary in bins.items():
        by_id = {c[0]: (c[1], c[2]) for c in cases}
        wit = case_witness(by_id, fl)
        logs = run_batch(binary, fl, cases, workdir, 'C08-%s' % seed)
        first = fl == sorted(bins)[0]
        for cid, (info, cfg) in infos.items():
            cl = logs[cid]
            out.vios += mechanical_violations(prop, cl, wit)
            judge(prop, cl, info, cfg, out, wit, first)
            if first and cid % 61 == 3:
                its = split_iterations(cl)
                out.sample({'scenario': info['name'], 'cfg': cfg, 'target': by_id[cid][1][info['tpos'] + 1][:100], 'requests': its.get(0, {}).get('T', {}).get('requests') if its.get(0) else None,
                            'outcomes_by_k': {str(k): ('failed' if (v['T'] or {}).get('failed') == '1' else 'normal') for k, v in sorted(its.items()) if k and v['T']}})
    return out


def finish(prop, tier, results):
    tot = ShardOut()
    for r in results:
        tot.merge(r)
    scn = {k[4:]: v for k, v in sorted(tot.stats.items()) if k.startswith('scn:')}
    per = {}
    for k in scn:
        per[k] = {'runs': scn[k], 'requests_total': tot.stats.get('requests:' + k, 0), 'failure_returns': tot.stats.get('failret:' + k, 0), 'completed_normally': tot.stats.get('normal:' + k, 0)}
    cov = {
        'evaluations': tot.evals,
        'distinct_nontrivial': min(len(tot.distinct), tot.stats.get('nontrivial', 0) * 2),
        'rule': 'scenario x parameterisation x allocator configuration (custom hooks / default with realloc) x EVERY request index k=1..N of the target call (plus k=N+1 as control); evaluations = fault injections executed; distinct = distinct (scenario, configuration, parameterisation) with N >= 1',
        'samples': tot.samples[:8],
        'exhaustive': True,
        'scenarios': per,
    }
    inc = None
    missing = [k for k, v in per.items() if v['failure_returns'] == 0 and v['requests_total'] > 0 and not k.endswith('missing') and not k.startswith('parse/long-tokens')]
    if missing:
        inc = 'coverage floor: scenarios that never returned failure: %s' % missing
    if tot.evals == 0:
        inc = 'nothing was evaluated'
    return tot.vios, cov, inc
