"""Reference models for JSON text, independent of cJSON:

R1  gen_text      - generate a value and one *spelling* of it (expected tree known by construction)
R2  classify      - three-valued recogniser of the library's documented lenient dialect
R3  strict_decode - strict RFC 8259 validator/decoder (for printer output)
"""
import re
import sys
from .tn import Node, d2b, sat_int

sys.setrecursionlimit(20000)

NESTING_LIMIT = 1000
_lim = None


def nesting_limit(repo):
    """CJSON_NESTING_LIMIT as the header under test defines it"""
    global _lim
    if _lim is None:
        _lim = 1000
        try:
            txt = open(repo + '/cJSON.h').read()
            m = re.search(r'#define\s+CJSON_NESTING_LIMIT\s+(\d+)', txt)
            if m:
                _lim = int(m.group(1))
        except OSError:
            pass
    return _lim


def circular_limit(repo):
    try:
        txt = open(repo + '/cJSON.h').read()
        m = re.search(r'#define\s+CJSON_CIRCULAR_LIMIT\s+(\d+)', txt)
        if m:
            return int(m.group(1))
    except OSError:
        pass
    return 10000


# ---------------------------------------------------------------------------------------------
# R1: generator

WS = [b' ', b'\t', b'\n', b'\r']
SHORT = {0x22: b'\\"', 0x5c: b'\\\\', 0x2f: b'\\/', 0x08: b'\\b', 0x0c: b'\\f', 0x0a: b'\\n', 0x0d: b'\\r', 0x09: b'\\t'}

HOSTILE_CPS = [0x22, 0x5c, 0x2f, 0x08, 0x0c, 0x0a, 0x0d, 0x09, 0x01, 0x1f, 0x20, 0x7e, 0x7f, 0x80, 0x7ff, 0x800, 0xfff,
               0x1000, 0xd7ff, 0xe000, 0xfffd, 0xffff, 0x10000, 0x10ffff, 0x1f600, 0x41, 0x61, 0x30, 0x7b, 0x5b, 0x2c, 0x3a,
               0x10fc00, 0x103ff, 0xdbff + 0x2401]


def rand_cp(rng):
    r = rng.random()
    if r < 0.45:
        return rng.choice(HOSTILE_CPS)
    if r < 0.75:
        return rng.randrange(0x20, 0x7f)
    if r < 0.85:
        return rng.randrange(1, 0x20)
    if r < 0.93:
        cp = rng.randrange(0x80, 0x10000)
        if 0xd800 <= cp <= 0xdfff:
            cp = 0xe000
        return cp
    return rng.randrange(0x10000, 0x110000)


def spell_cp(rng, cp, strict=True):
    """one JSON spelling of code point cp inside a string literal"""
    opts = []
    if cp >= 0x20 and cp not in (0x22, 0x5c):
        opts += ['raw', 'raw', 'raw']
    if cp in SHORT:
        opts += ['short', 'short']
    opts.append('u')
    how = rng.choice(opts)
    if how == 'raw':
        return chr(cp).encode('utf-8')
    if how == 'short':
        return SHORT[cp]
    def u4(x):
        s = '%04x' % x
        return ('\\u' + ''.join(c.upper() if rng.random() < 0.5 else c for c in s)).encode()
    if cp >= 0x10000:
        v = cp - 0x10000
        return u4(0xd800 + (v >> 10)) + u4(0xdc00 + (v & 0x3ff))
    return u4(cp)


def gen_string(rng, maxlen=12):
    n = rng.choice([0, 0, 1, 1, 2, 3, 5, rng.randrange(0, maxlen + 1)])
    if rng.random() < 0.02:
        n = rng.choice([62, 63, 64, 65, 127, 128, 255, 256, 257, 1023, 1024, 1025, 4095, 4096, 4097])     # around typical buffer sizes
    cps = [rand_cp(rng) for _ in range(n)]
    lit = b'"' + b''.join(spell_cp(rng, cp) for cp in cps) + b'"'
    val = ''.join(chr(cp) for cp in cps).encode('utf-8')
    return lit, val


SPECIAL_NUMS = ['0', '-0', '1', '-1', '2147483647', '2147483648', '-2147483648', '-2147483649', '2147483646.9999',
                '999999999999999', '1000000000000000', '9007199254740992', '9007199254740993', '1e15', '1E+2', '1e-2',
                '0.1', '0.5', '1.5', '123.456e-7', '1.7976931348623157e308', '1.7976931348623159e308', '1e309', '-1e400',
                '4.9e-324', '2e-324', '1e-400', '2.2250738585072014e-308', '0e0', '0E-0', '0.0', '-0.0e5',
                '4294967296', '-4294967297', '1e10', '12345678901234567890', '0.30000000000000004', '1.0000000000000002',
                '3.141592653589793', '2.718281828459045e+0', '1e22', '1e23', '5e-1', '0.000001', '100e-2']


def gen_number_literal(rng):
    r = rng.random()
    if r < 0.05:
        return '%s%se%s%d' % (rng.choice(['', '-']), rng.choice(['1', '9.999999999999999', '1.0000000000000002', '5', '2.5']), rng.choice(['', '+', '-']), rng.randrange(0, 331))
    if r < 0.09:
        return '%d.%s' % (rng.choice([2147483647, -2147483648, 2147483646, -2147483649, 2147483648, 0, -1]), rng.choice(['5', '0', '000000001', '999999999', '25']))
    if r < 0.35:
        return rng.choice(SPECIAL_NUMS)
    if r < 0.45:
        # exactly 62 / 63 characters
        target = rng.choice([62, 63])
        lit = '0.' if rng.random() < 0.5 else str(rng.randrange(1, 10)) + '.'
        while len(lit) < target:
            lit += str(rng.randrange(10))
        return lit
    s = '-' if rng.random() < 0.4 else ''
    if rng.random() < 0.2:
        s += '0'
    else:
        s += str(rng.randrange(1, 10)) + ''.join(str(rng.randrange(10)) for _ in range(rng.choice([0, 0, 1, 2, 5, 9, 15, 18])))
    if rng.random() < 0.5:
        s += '.' + ''.join(str(rng.randrange(10)) for _ in range(rng.choice([1, 1, 2, 3, 8, 16])))
    if rng.random() < 0.35:
        s += rng.choice('eE') + rng.choice(['', '+', '-']) + str(rng.randrange(0, rng.choice([3, 20, 330])))
    return s[:63] if re.fullmatch(NUM_RE_S, s[:63]) else '7'


NUM_RE_S = r'-?(0|[1-9][0-9]*)(\.[0-9]+)?([eE][+-]?[0-9]+)?'


def ws(rng, p=0.3):
    if rng.random() > p:
        return b''
    return b''.join(rng.choice(WS) for _ in range(rng.choice([1, 1, 2, 3])))


KEYS = [b'', b'a', b'A', b'b', b'key', b'a/b', b'm~n', b'0', b'1', b' ', b'\xc3\xa9', b'"', b'\\']


def gen_text(rng, depth=0, maxdepth=5, p_ws=0.3, dupkeys=True):
    """-> (text bytes, expected Node). The root has no key."""
    r = rng.random()
    if depth >= maxdepth:
        r *= 0.62
    if r < 0.08:
        return b'null', Node('z')
    if r < 0.14:
        return b'true', Node('t')
    if r < 0.20:
        return b'false', Node('f')
    if r < 0.42:
        lit = gen_number_literal(rng)
        return lit.encode(), Node.num(float(lit))
    if r < 0.62:
        lit, val = gen_string(rng)
        return lit, Node.string(val)
    if r < 0.81:
        n = rng.choice([0, 0, 1, 2, 3, 5])
        parts = []
        node = Node('a')
        for _ in range(n):
            t, v = gen_text(rng, depth + 1, maxdepth, p_ws, dupkeys)
            parts.append(ws(rng, p_ws) + t + ws(rng, p_ws))
            v.parent = node
            node.kids.append(v)
        if n == 0:
            return b'[' + ws(rng, p_ws) + b']', node
        return b'[' + b','.join(parts) + b']', node
    n = rng.choice([0, 0, 1, 2, 3, 5])
    parts = []
    node = Node('o')
    used = []
    for _ in range(n):
        if rng.random() < 0.5:
            kv = rng.choice(KEYS)
            klit = b'"' + b''.join(spell_cp(rng, cp) for cp in [ord(c) for c in kv.decode('utf-8')]) + b'"'
        else:
            klit, kv = gen_string(rng, 6)
        if not dupkeys and kv in used:
            continue
        used.append(kv)
        t, v = gen_text(rng, depth + 1, maxdepth, p_ws, dupkeys)
        v.key = kv
        v.parent = node
        node.kids.append(v)
        parts.append(ws(rng, p_ws) + klit + ws(rng, p_ws) + b':' + ws(rng, p_ws) + t + ws(rng, p_ws))
    if not parts:
        return b'{' + ws(rng, p_ws) + b'}', node
    return b'{' + b','.join(parts) + b'}', node


def gen_tokens(rng, depth=0, maxdepth=4):
    """-> (list of token byte strings, expected Node); used by the minify oracle (C13)"""
    r = rng.random()
    if depth >= maxdepth:
        r *= 0.6
    if r < 0.1:
        return [b'null'], Node('z')
    if r < 0.18:
        return [rng.choice([b'true'])], Node('t')
    if r < 0.25:
        return [b'false'], Node('f')
    if r < 0.42:
        lit = gen_number_literal(rng)
        return [lit.encode()], Node.num(float(lit))
    if r < 0.6:
        lit, val = gen_minify_string(rng)
        return [lit], Node.string(val)
    if r < 0.8:
        n = rng.choice([0, 1, 2, 3])
        toks = [b'[']
        node = Node('a')
        for i in range(n):
            if i:
                toks.append(b',')
            t, v = gen_tokens(rng, depth + 1, maxdepth)
            toks += t
            node.kids.append(v)
        toks.append(b']')
        return toks, node
    n = rng.choice([0, 1, 2, 3])
    toks = [b'{']
    node = Node('o')
    for i in range(n):
        if i:
            toks.append(b',')
        klit, kv = gen_minify_string(rng)
        t, v = gen_tokens(rng, depth + 1, maxdepth)
        v.key = kv
        toks += [klit, b':'] + t
        node.kids.append(v)
    toks.append(b'}')
    return toks, node


MINIFY_PIECES = [('a', b'a'), (' ', b' '), ('  ', b'  '), ('//', b'//'), ('/*', b'/*'), ('*/', b'*/'), ('\\"', b'"'), ('\\\\', b'\\'),
                 ('\\n', b'\n'), ('\t', b'\t'), ('/', b'/'), ('\\/', b'/'), (' x ', b' x '), ('\\u0041', b'A'), ('\\\\\\"', b'\\"'),
                 ('{', b'{'), ('[', b'['), (',', b','), (':', b':'), ('\\\\ ', b'\\ '), ('*', b'*'), ('\r', b'\r')]


def gen_minify_string(rng):
    """string literal rich in the characters Minify cares about -> (literal, decoded bytes)"""
    n = rng.choice([0, 1, 2, 3, 4, 6])
    lit = b'"'
    val = b''
    for _ in range(n):
        l, v = rng.choice(MINIFY_PIECES)
        lit += l.encode()
        val += v
    # make "ends in an escaped backslash" common: that is where a naive scanner loses the closing quote
    if rng.random() < 0.25:
        lit += b'\\\\'
        val += b'\\'
    return lit + b'"', val


# ---------------------------------------------------------------------------------------------
# R2: recogniser of the documented lenient dialect

STRICT, LENIENT, REJECT, UNKNOWN = 'strict', 'lenient', 'reject', 'unknown'

_num_strtod = re.compile(rb'-?(?:[0-9]+(?:\.[0-9]*)?|\.[0-9]+)(?:[eE][+-]?[0-9]+)?')
_num_rfc = re.compile(rb'-?(?:0|[1-9][0-9]*)(?:\.[0-9]+)?(?:[eE][+-]?[0-9]+)?')
_NUMCH = frozenset(b'0123456789+-eE.')
_HEX = frozenset(b'0123456789abcdefABCDEF')


class _Rej(Exception):
    pass


class _Unk(Exception):
    pass


class Recogniser:
    def __init__(self, b, limit=NESTING_LIMIT):
        self.b = b
        self.n = len(b)
        self.lenient = False
        self.limit = limit

    def skip_ws(self, i):
        b = self.b
        n = self.n
        while i < n and b[i] <= 0x20:
            if b[i] not in (0x20, 0x09, 0x0a, 0x0d):
                self.lenient = True
            i += 1
        return i

    def string(self, i):
        b = self.b
        n = self.n
        # b[i] == '"'
        i += 1
        while True:
            if i >= n:
                raise _Rej('unterminated string')
            c = b[i]
            if c == 0x22:
                return i + 1
            if c == 0x5c:
                if i + 1 >= n:
                    raise _Rej('backslash at end')
                e = b[i + 1]
                if e in b'"\\/bfnrt':
                    i += 2
                    continue
                if e != 0x75:
                    raise _Rej('unknown escape')
                h = b[i + 2:i + 6]
                if len(h) < 4 or any(x not in _HEX for x in h):
                    raise _Rej('bad \\u escape')
                cp = int(h, 16)
                if 0xdc00 <= cp <= 0xdfff:
                    raise _Rej('lone low surrogate')
                if 0xd800 <= cp <= 0xdbff:
                    if b[i + 6:i + 8] != b'\\u':
                        raise _Rej('unpaired high surrogate')
                    h2 = b[i + 8:i + 12]
                    if len(h2) < 4 or any(x not in _HEX for x in h2):
                        raise _Rej('bad low surrogate escape')
                    cp2 = int(h2, 16)
                    if not (0xdc00 <= cp2 <= 0xdfff):
                        raise _Rej('high surrogate not followed by low')
                    i += 12
                    continue
                if cp == 0:
                    raise _Unk('\\u0000')
                i += 6
                continue
            if c < 0x20:
                self.lenient = True
            i += 1

    def number(self, i):
        b = self.b
        j = i
        while j < self.n and b[j] in _NUMCH:
            j += 1
        if j - i > 63:
            raise _Unk('number run longer than 63')
        run = b[i:j]
        m = _num_strtod.match(run)
        if not m or m.end() == 0:
            raise _Rej('number without digits')
        tok = m.group(0)
        if not _num_rfc.fullmatch(tok):
            self.lenient = True
        return i + len(tok)

    def value(self, i, depth):
        b = self.b
        n = self.n
        if i >= n:
            raise _Rej('no value')
        c = b[i]
        if b[i:i + 4] == b'null' or b[i:i + 4] == b'true':
            return i + 4
        if b[i:i + 5] == b'false':
            return i + 5
        if c == 0x22:
            return self.string(i)
        if c == 0x2d or 0x30 <= c <= 0x39:
            return self.number(i)
        if c == 0x5b:
            if depth >= self.limit:
                raise _Rej('too deep')
            i = self.skip_ws(i + 1)
            if i < n and b[i] == 0x5d:
                return i + 1
            while True:
                i = self.skip_ws(i)
                i = self.value(i, depth + 1)
                i = self.skip_ws(i)
                if i < n and b[i] == 0x2c:
                    i += 1
                    continue
                if i < n and b[i] == 0x5d:
                    return i + 1
                raise _Rej('expected , or ]')
        if c == 0x7b:
            if depth >= self.limit:
                raise _Rej('too deep')
            i = self.skip_ws(i + 1)
            if i < n and b[i] == 0x7d:
                return i + 1
            while True:
                i = self.skip_ws(i)
                if i >= n or b[i] != 0x22:
                    raise _Rej('expected key')
                i = self.string(i)
                i = self.skip_ws(i)
                if i >= n or b[i] != 0x3a:
                    raise _Rej('expected :')
                i = self.skip_ws(i + 1)
                i = self.value(i, depth + 1)
                i = self.skip_ws(i)
                if i < n and b[i] == 0x2c:
                    i += 1
                    continue
                if i < n and b[i] == 0x7d:
                    return i + 1
                raise _Rej('expected , or }')
        raise _Rej('not a value')


def classify(b, terminated, limit=NESTING_LIMIT):
    """b: bytes without embedded zero.  -> (class, value_end or None, reason)"""
    if 0 in b:
        return UNKNOWN, None, 'embedded zero'
    r = Recogniser(b, limit)
    i = 0
    if b[:3] == b'\xef\xbb\xbf':
        i = 3
    try:
        i = r.skip_ws(i)
        e = r.value(i, 0)
    except _Rej as x:
        return REJECT, None, str(x)
    except _Unk as x:
        return UNKNOWN, None, str(x)
    rest = b[e:]
    if terminated:
        if any(c > 0x20 for c in rest):
            return REJECT, e, 'trailing bytes'
        if any(c not in (0x20, 9, 10, 13) for c in rest):
            r.lenient = True
    else:
        if any(c not in (0x20, 9, 10, 13) for c in rest):
            r.lenient = True
    return (LENIENT if r.lenient else STRICT), e, ''


# ---------------------------------------------------------------------------------------------
# R3: strict RFC 8259 decoder (objects -> list of pairs; iterative so depth 1000 is fine)

class StrictError(Exception):
    pass


_ws_strict = frozenset(b' \t\n\r')


def strict_decode(b):
    """bytes -> Node tree, or raises StrictError.  Entirely independent of cJSON."""
    try:
        b.decode('utf-8')
    except UnicodeDecodeError as e:
        raise StrictError('invalid UTF-8: %s' % e)
    n = len(b)
    pos = 0

    def skip(i):
        while i < n and b[i] in _ws_strict:
            i += 1
        return i

    def string(i):
        out = bytearray()
        i += 1
        while True:
            if i >= n:
                raise StrictError('unterminated string')
            c = b[i]
            if c == 0x22:
                return bytes(out), i + 1
            if c < 0x20:
                raise StrictError('control byte 0x%02x in string' % c)
            if c == 0x5c:
                e = b[i + 1:i + 2]
                m = {b'"': b'"', b'\\': b'\\', b'/': b'/', b'b': b'\b', b'f': b'\f', b'n': b'\n', b'r': b'\r', b't': b'\t'}
                if e in m:
                    out += m[e]
                    i += 2
                    continue
                if e != b'u':
                    raise StrictError('bad escape')
                h = b[i + 2:i + 6]
                if len(h) != 4 or any(x not in _HEX for x in h):
                    raise StrictError('bad \\u')
                cp = int(h, 16)
                i += 6
                if 0xd800 <= cp <= 0xdbff:
                    if b[i:i + 2] != b'\\u':
                        raise StrictError('unpaired surrogate')
                    h2 = b[i + 2:i + 6]
                    if len(h2) != 4 or any(x not in _HEX for x in h2):
                        raise StrictError('bad \\u')
                    cp2 = int(h2, 16)
                    if not 0xdc00 <= cp2 <= 0xdfff:
                        raise StrictError('unpaired surrogate')
                    cp = 0x10000 + ((cp - 0xd800) << 10) + (cp2 - 0xdc00)
                    i += 6
                elif 0xdc00 <= cp <= 0xdfff:
                    raise StrictError('lone low surrogate')
                out += chr(cp).encode('utf-8')
                continue
            out.append(c)
            i += 1

    root = None
    stack = []   # containers being filled
    pending_key = [None]
    i = skip(0)
    state = 'value'
    while True:
        if state == 'value':
            if i >= n:
                raise StrictError('value expected at end')
            c = b[i]
            node = None
            if c == 0x5b or c == 0x7b:
                node = Node('a' if c == 0x5b else 'o')
                i = skip(i + 1)
                opened = True
            else:
                opened = False
                if b[i:i + 4] == b'null':
                    node = Node('z'); i += 4
                elif b[i:i + 4] == b'true':
                    node = Node('t'); i += 4
                elif b[i:i + 5] == b'false':
                    node = Node('f'); i += 5
                elif c == 0x22:
                    s, i = string(i)
                    node = Node.string(s)
                else:
                    m = _num_rfc.match(b, i)
                    if not m or m.end() == i:
                        raise StrictError('bad value at %d: %r' % (i, b[i:i + 10]))
                    lit = m.group(0)
                    node = Node.num(float(lit))
                    node.sval = lit   # keep the literal for the integer-format clause
                    i = m.end()
            node.key = pending_key[0]
            pending_key[0] = None
            if stack:
                stack[-1].kids.append(node)
                node.parent = stack[-1]
            else:
                root = node
            if opened:
                stack.append(node)
                close = 0x5d if node.kind == 'a' else 0x7d
                if i < n and b[i] == close:
                    i += 1
                    stack.pop()
                    state = 'after'
                else:
                    state = 'value' if node.kind == 'a' else 'key'
            else:
                state = 'after'
            continue
        if state == 'key':
            if i >= n or b[i] != 0x22:
                raise StrictError('key expected at %d' % i)
            k, i = string(i)
            i = skip(i)
            if i >= n or b[i] != 0x3a:
                raise StrictError('colon expected at %d' % i)
            i = skip(i + 1)
            pending_key[0] = k
            state = 'value'
            continue
        # after a value
        i = skip(i)
        if not stack:
            if i != n:
                raise StrictError('trailing bytes at %d' % i)
            return root
        top = stack[-1]
        if i >= n:
            raise StrictError('unterminated container')
        c = b[i]
        if c == 0x2c:
            i = skip(i + 1)
            state = 'value' if top.kind == 'a' else 'key'
            continue
        if (c == 0x5d and top.kind == 'a') or (c == 0x7d and top.kind == 'o'):
            i += 1
            stack.pop()
            state = 'after'
            continue
        raise StrictError('unexpected byte at %d' % i)


def strip_ws_outside_strings(b):
    """remove insignificant whitespace from JSON text with a string-aware scanner (own code)"""
    out = bytearray()
    i = 0
    n = len(b)
    while i < n:
        c = b[i]
        if c == 0x22:
            j = i + 1
            while j < n and b[j] != 0x22:
                j += 2 if b[j] == 0x5c else 1
            out += b[i:j + 1]
            i = j + 1
        elif c in _ws_strict:
            i += 1
        else:
            out.append(c)
            i += 1
    return bytes(out)


def selfcheck(rng, rounds=300):
    """R2/R3 sanity: texts valid by construction must be STRICT and decode to the expected tree;
    texts invalid by construction must be REJECT.  Returns None or a description of the failure."""
    from .tn import to_tn
    for _ in range(rounds):
        t, v = gen_text(rng, maxdepth=4)
        for term in (False, True):
            c, e, why = classify(t, term)
            if c == UNKNOWN and (b'\\u0000' in t.lower()):
                continue
            if c != STRICT:
                return 'R2 classified a valid text as %s (%s): %r' % (c, why, t)
        try:
            d = strict_decode(t)
        except StrictError as x:
            return 'R3 rejected a valid text (%s): %r' % (x, t)
        # R3 keeps number literals in sval; compare structure only through TN without them
        def strip(nn):
            if nn.kind == 'n':
                nn.sval = None
            for k in (nn.kids or []):
                strip(k)
        strip(d)
        if to_tn(d) != to_tn(v):
            return 'R3 decoded %r to %s, generator says %s' % (t, to_tn(d), to_tn(v))
    for bad in [b'', b' ', b'[', b']', b'[1,]', b'[,1]', b'{"a"}', b'{"a":}', b'{a:1}', b'{1:2}', b'nul', b'True', b'NULL',
                b'-', b'+1', b'.5', b'"abc', b'"\\x"', b'"\\u12"', b'"\\u12G4"', b'"\\ud800"', b'"\\udc00"', b'"\\ud800\\u0041"',
                b"'a'", b'[1 2]', b'{"a":1,}', b'[' * 1001 + b']' * 1001]:
        c, e, why = classify(bad, True)
        if c != REJECT:
            return 'R2 classified invalid text %r as %s' % (bad[:40], c)
        try:
            strict_decode(bad)
            return 'R3 accepted invalid text %r' % bad[:40]
        except StrictError:
            pass
    if classify(b'[' * 1000 + b']' * 1000, True)[0] != STRICT:
        return 'R2 rejects nesting at the limit'
    return None
