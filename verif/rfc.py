"""R6 (RFC 6901), R7 (RFC 6902), R8 (RFC 7396) on model trees (tn.Node).  Objects are ordered
lists of members with pairwise distinct keys; nothing here shares code with cJSON_Utils."""
import re
from .tn import Node, to_tn

_IDX = re.compile(rb'0|[1-9][0-9]*')


class PointerSyntax(Exception):
    pass


def ptr_valid(p):
    if p == b'':
        return True
    if not p.startswith(b'/'):
        return False
    i = 0
    while True:
        i = p.find(b'~', i)
        if i < 0:
            return True
        if p[i + 1:i + 2] not in (b'0', b'1'):
            return False
        i += 2


def ptr_tokens(p):
    """decoded reference tokens; raises PointerSyntax for text that is not a JSON Pointer"""
    if p == b'':
        return []
    if not ptr_valid(p):
        raise PointerSyntax(p)
    return [t.replace(b'~1', b'/').replace(b'~0', b'~') for t in p[1:].split(b'/')]


def esc(tok):
    return tok.replace(b'~', b'~0').replace(b'/', b'~1')


def member(o, key):
    for k in o.kids:
        if k.key == key:
            return k
    return None


def step(node, tok):
    if node.kind == 'o':
        return member(node, tok)
    if node.kind == 'a':
        if not _IDX.fullmatch(tok):
            return None
        i = int(tok)
        return node.kids[i] if i < len(node.kids) else None
    return None


def resolve(doc, p):
    """R6: node designated by pointer text p, or None (also for text that is not a pointer)"""
    try:
        toks = ptr_tokens(p)
    except PointerSyntax:
        return None
    n = doc
    for t in toks:
        n = step(n, t)
        if n is None:
            return None
    return n


def resolve_lenient_prefix(doc, p):
    """like resolve, but tokens are validated lazily (an invalid escape in a token that is never
    reached does not matter); used to decide whether a pointer's badness was 'reached'"""
    if p == b'':
        return doc
    if not p.startswith(b'/'):
        return None
    n = doc
    for raw in p[1:].split(b'/'):
        if re.search(rb'~(?![01])', raw):
            return None
        n = step(n, raw.replace(b'~1', b'/').replace(b'~0', b'~'))
        if n is None:
            return None
    return n


def canonical_pointer(root, node):
    parts = []
    n = node
    while n is not root:
        par = n.parent
        if par.kind == 'o':
            parts.append(esc(n.key))
        else:
            parts.append(str(par.kids.index(n)).encode())
        n = par
    return b''.join(b'/' + x for x in reversed(parts))


def preorder_index(root, node):
    i = 0
    st = [root]
    while st:
        m = st.pop()
        if m is node:
            return i
        i += 1
        if m.kids:
            st.extend(reversed(m.kids))
    return None


def clone(n, key=None):
    c = n.clone()
    c.key = key
    c.kconst = False
    c.parent = None
    return c


def set_parent(n):
    st = [n]
    while st:
        m = st.pop()
        for k in (m.kids or []):
            k.parent = m
            st.append(k)


# ---------------------------------------------------------------------------------------------
# equality as JSON values (objects as key/value sets)

def norm_tn(n, with_key=False):
    """canonical text of the tree as a JSON value: object members sorted by (key, canonical value),
    ownership flags and integer views dropped"""
    def rec(m):
        k = m.kind
        if k in 'ztf':
            return k
        if k == 'n':
            return 'n%016x;' % (m.bits if m.bits != 0x8000000000000000 else 0)
        if k in 'sw':
            return k + (m.sval or b'').hex() + ';'
        if k == 'a':
            return 'a%d;' % len(m.kids) + ''.join(rec(c) for c in m.kids)
        if k == 'o':
            parts = sorted(('k' + (c.key or b'').hex() + ';' + rec(c)) for c in m.kids)
            return 'o%d;' % len(m.kids) + ''.join(parts)
        return 'i;'
    body = rec(n)
    if with_key and n.key is not None:
        return 'k' + n.key.hex() + ';' + body
    return body


def json_equal(a, b):
    return norm_tn(a) == norm_tn(b)


# ---------------------------------------------------------------------------------------------
# R7: RFC 6902

class PatchError(Exception):
    pass


class Undefined(Exception):
    """a case the RFC (or the property) leaves open"""
    pass


class PatchRun:
    def __init__(self):
        self.bad_syntax = False      # a pointer that is not RFC 6901 text was looked at
        self.ops_applied = 0
        self.kinds = []


def _get_str(opobj, name):
    m = member(opobj, name)
    if m is None or m.kind != 's':
        return None
    return m.sval


def _parent_and_token(doc, path, run):
    try:
        toks = ptr_tokens(path)
    except PointerSyntax:
        run.bad_syntax = True
        raise PatchError('pointer syntax')
    if not toks:
        return None, None
    n = doc
    for t in toks[:-1]:
        n = step(n, t)
        if n is None:
            raise PatchError('parent missing')
    return n, toks[-1]


def _add(doc, path, value, run):
    par, tok = _parent_and_token(doc, path, run)
    if par is None:
        value.key = None
        value.parent = None
        return value
    if par.kind == 'o':
        old = member(par, tok)
        value.key = tok
        value.parent = par
        if old is not None:
            par.kids.remove(old)
        par.kids.append(value)
    elif par.kind == 'a':
        value.key = None
        value.parent = par
        if tok == b'-':
            par.kids.append(value)
        else:
            if not _IDX.fullmatch(tok):
                raise PatchError('bad index')
            i = int(tok)
            if i > len(par.kids):
                raise PatchError('index out of range')
            par.kids.insert(i, value)
    else:
        raise PatchError('parent is a scalar')
    return doc


def _remove(doc, path, run):
    par, tok = _parent_and_token(doc, path, run)
    if par is None:
        raise Undefined('remove of the whole document')
    t = step(par, tok)
    if t is None:
        raise PatchError('target missing')
    par.kids.remove(t)
    t.parent = None
    return t


def apply_patch(doc, patch):
    """-> (ok, resulting doc, PatchRun).  doc is modified in place (sequentially, like the library);
    on failure the partially patched document is returned."""
    run = PatchRun()
    if patch.kind != 'a':
        return False, doc, run
    for op in patch.kids:
        try:
            if op.kind != 'o':
                raise PatchError('operation is not an object')
            path = _get_str(op, b'path')
            if path is None:
                raise PatchError('path missing or not a string')
            name = _get_str(op, b'op')
            if name not in (b'add', b'remove', b'replace', b'move', b'copy', b'test'):
                raise PatchError('bad op')
            run.kinds.append(name.decode())
            if name == b'test':
                v = member(op, b'value')
                if not ptr_valid(path):
                    run.bad_syntax = True
                    raise PatchError('pointer syntax')
                t = resolve(doc, path)
                if v is None or t is None or not json_equal(t, v):
                    raise PatchError('test failed')
            elif name == b'add':
                v = member(op, b'value')
                if v is None:
                    raise PatchError('value missing')
                doc = _add(doc, path, clone(v), run)
            elif name == b'remove':
                _remove(doc, path, run)
            elif name == b'replace':
                v = member(op, b'value')
                if not ptr_valid(path):
                    run.bad_syntax = True
                    raise PatchError('pointer syntax')
                t = resolve(doc, path)
                if t is None:
                    raise PatchError('target missing')
                if v is None:
                    # the library removes the target before it notices the missing value; the RFC
                    # only says the operation is an error - the document is not compared on error
                    raise PatchError('value missing')
                if t is doc:
                    doc = clone(v)
                else:
                    par = t.parent
                    nv = clone(v, t.key if par.kind == 'o' else None)
                    nv.parent = par
                    par.kids[par.kids.index(t)] = nv
            else:
                frm = member(op, b'from')
                if frm is None or frm.kind != 's':
                    raise PatchError('from missing or not a string')
                fp = frm.sval
                if not ptr_valid(fp) or not ptr_valid(path):
                    run.bad_syntax = True
                    raise PatchError('pointer syntax')
                src = resolve(doc, fp)
                if src is None:
                    raise PatchError('from missing')
                if name == b'copy':
                    doc = _add(doc, path, clone(src), run)
                else:
                    if fp == path:
                        pass
                    elif path.startswith(fp + b'/') or fp == b'':
                        # moving a value into one of its own children (or the whole document elsewhere)
                        raise PatchError('move into own child')
                    else:
                        # the target location must be addressable after the removal
                        _remove(doc, fp, run)
                        doc = _add(doc, path, src, run)
            run.ops_applied += 1
        except PatchError:
            return False, doc, run
    return True, doc, run


# ---------------------------------------------------------------------------------------------
# R8: RFC 7396

def merge_patch(target, patch):
    if patch.kind != 'o':
        return clone(patch)
    if target is None or target.kind != 'o':
        target = Node('o')
    for m in patch.kids:
        old = member(target, m.key)
        if m.kind == 'z':
            if old is not None:
                target.kids.remove(old)
        else:
            if old is not None:
                target.kids.remove(old)
                old.parent = None
            nv = merge_patch(old, m)
            nv.key = m.key
            nv.kconst = False
            nv.parent = target
            target.kids.append(nv)
    return target


def has_null_member(n):
    st = [n]
    while st:
        m = st.pop()
        if m.kind == 'o':
            for k in m.kids:
                if k.kind == 'z':
                    return True
        if m.kids:
            st.extend(m.kids)
    return False
