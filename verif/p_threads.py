"""C20 - independent trees from different threads: ThreadSanitizer over N pinned threads running
private seed-determined programs, per-thread digests compared with a sequential re-run."""
import os
import re
import json
import subprocess
from .runner import ShardOut, Violation, SEED, HarnessFailure


def plan(prop, tier):
    q = tier == 'quick'
    runs = []
    n = 10 if q else 80
    for i in range(n):
        threads = [16, 8, 24, 5, 16, 12, 32, 16][i % 8]     # more threads than CPUs: calls get preempted half-way
        calls = 2500 if q else 8000
        runs.append(('tsan', SEED * 1000 + i, (threads, calls, 'custom' if i % 2 else 'default')))
    return ['tsan'], [('all', 0, runs)]


_frame = re.compile(r'#\d+ (\S+) [^\n]*?(cJSON(?:_Utils)?\.c):(\d+)')


def parse_reports(text):
    out = []
    for blk in text.split('==================')[1:]:
        m = re.search(r'WARNING: ThreadSanitizer: ([^\(\n]+)', blk)
        if not m:
            continue
        kind = m.group(1).strip().replace(' ', '-')
        funcs = []
        for part in re.split(r'\n\s*\n', blk):
            fm = _frame.search(part)
            if fm and fm.group(1) not in funcs:
                funcs.append(fm.group(1))
        loc = re.search(r"Location is (global '[^']+'|heap block|stack|thread-local)[^\n]*", blk)
        out.append((kind, tuple(sorted(funcs[:2])), loc.group(0)[:100] if loc else '', blk[:2500]))
    return out


def run_shard(shard_prop, bins, workdir, tier):
    prop, (_k, _s, runs) = shard_prop
    out = ShardOut()
    binary = bins['tsan']
    overlap_missing = None
    for (_fl, seed, (threads, calls, hooks)) in runs:
        logp = os.path.join(workdir, 'tsan-%d' % seed)
        env = dict(os.environ)
        env['TSAN_OPTIONS'] = 'halt_on_error=0 report_signal_unsafe=0 exitcode=0 log_path=%s history_size=4' % logp
        try:
            r = subprocess.run([binary, str(threads), str(calls), str(seed), hooks], stdout=subprocess.PIPE, stderr=subprocess.PIPE, env=env, timeout=1800)
        except subprocess.TimeoutExpired:
            out.vios.append(Violation(prop, 'C20/hang', 'threads=%d calls=%d seed=%d hooks=%s did not finish' % (threads, calls, seed, hooks), {'argv': [threads, calls, seed, hooks]}))
            continue
        txt = r.stdout.decode(errors='replace').strip()
        try:
            summ = json.loads(txt.splitlines()[-1])
        except Exception:
            rep = ''
            for f in os.listdir(workdir):
                if f.startswith('tsan-%d' % seed):
                    rep += open(os.path.join(workdir, f), errors='replace').read()
            if r.returncode < 0 or 'ThreadSanitizer' in rep or 'Sanitizer' in r.stderr.decode(errors='replace'):
                out.vios.append(Violation(prop, 'C20/crash/signal-%s' % (-r.returncode), 'driver died: rc=%s %s' % (r.returncode, (rep + r.stderr.decode(errors='replace'))[:1500]), {'argv': [threads, calls, seed, hooks]}))
                continue
            raise HarnessFailure('tsan driver produced no summary: rc=%s %s' % (r.returncode, r.stderr.decode(errors='replace')[:500]))
        wit = {'argv': [threads, calls, seed, hooks], 'summary': summ, 'how': 'driver/build.sh tsan <dir> && TSAN_OPTIONS=halt_on_error=0 <dir>/cjv_tsan %d %d %d %s' % (threads, calls, seed, hooks)}
        out.evals += summ['calls']
        out.count('runs')
        out.count('threads_total', threads)
        out.count('hooks:' + hooks)
        out.stats['max_threads_inside_library'] = max(out.stats.get('max_threads_inside_library', 0), summ['max_threads_inside_library'])
        for fam, n in summ['families'].items():
            out.count('family:' + fam, n)
        for t in range(threads):
            out.seen(seed, t)
            out.count('nontrivial')
        miss = set(summ['missing_overlaps'])
        overlap_missing = miss if overlap_missing is None else (overlap_missing & miss)
        if not summ['exempted_error_position']:
            out.count('runs_without_exemption')
        if summ['digest_mismatches']:
            out.vios.append(Violation(prop, 'C20/digest/differs-from-sequential-run', '%d of %d threads computed results that differ from the same program run alone' % (summ['digest_mismatches'], threads), wit))
        if summ['alloc_balance'] != 0:
            out.vios.append(Violation(prop, 'C20/per-thread-allocation-balance', 'per-thread allocation balance is %d (blocks crossing threads or lost)' % summ['alloc_balance'], wit))
        rep = ''
        for f in sorted(os.listdir(workdir)):
            if f.startswith('tsan-%d.' % seed) or f == 'tsan-%d' % seed:
                rep += open(os.path.join(workdir, f), errors='replace').read()
                os.unlink(os.path.join(workdir, f))
        reps = parse_reports(rep)
        out.count('tsan_reports', len(reps))
        seenk = set()
        for kind, funcs, loc, blk in reps:
            key = 'C20/tsan/%s@%s' % (kind, '+'.join(funcs) or '?')
            if key in seenk:
                continue
            seenk.add(key)
            w = dict(wit)
            w['report'] = blk
            out.vios.append(Violation(prop, key, '%s %s' % (loc, blk[:300].replace('\n', ' | ')), w))
        if len(out.samples) < 4:
            out.sample({'threads': threads, 'calls': summ['calls'], 'hooks': hooks, 'overlapping_family_pairs': summ['overlap_pairs'], 'max_threads_inside_library': summ['max_threads_inside_library'],
                        'tsan_reports': len(reps), 'digest_mismatches': summ['digest_mismatches'], 'exempted_error_position': summ['exempted_error_position']})
    out.stats['overlap_missing_everywhere'] = sorted(overlap_missing or [])
    return out


def finish(prop, tier, results):
    tot = results[0]
    fam = {k[7:]: v for k, v in sorted(tot.stats.items()) if k.startswith('family:')}
    cov = {
        'evaluations': tot.evals,
        'distinct_nontrivial': min(len(tot.distinct), tot.stats.get('nontrivial', 0)),
        'rule': 'runs of 5-16 threads, each pinned to its own CPU, each executing a private seed-determined program (parse, failing parse via return_parse_end, all print variants, edits, compare, duplicate, minify, pointer, patch, merge patch, sort, delete) on thread-private data; default allocator and lock-free per-thread-counting hooks installed before threads start; evaluations = library calls made while other threads were running; distinct = distinct per-thread programs (one seed per thread and run)',
        'samples': tot.samples[:6],
        'runs': tot.stats.get('runs', 0),
        'calls_by_family': fam,
        'tsan_reports': tot.stats.get('tsan_reports', 0),
        'max_threads_inside_library_at_once': tot.stats.get('max_threads_inside_library', 0),
        'family_pairs_never_seen_overlapping': tot.stats.get('overlap_missing_everywhere', []),
        'runs_without_error_position_exemption': tot.stats.get('runs_without_exemption', 0),
    }
    inc = None
    if tot.evals == 0:
        inc = 'nothing was evaluated'
    elif cov['family_pairs_never_seen_overlapping']:
        inc = 'coverage floor: family pairs never observed overlapping in time: %s' % cov['family_pairs_never_seen_overlapping'][:8]
    elif cov['max_threads_inside_library_at_once'] < 2:
        inc = 'coverage floor: never two threads inside the library at once'
    return tot.vios, cov, inc
