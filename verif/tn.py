"""Tree notation (TN): the flat, printer-independent serialisation of a cJSON tree that the
driver's walker emits and that the Python models produce for comparison.

    node   := [key] ['r'] body
    key    := 'k' hex ';' (owned key) | 'c' hex ';' (constant key)
    body   := 'z' | 't' | 'f' | 'n' <16 hex: double bits> ',' <valueint> ';'
            | 's' hex ';' | 'w' hex ';' | 'a' count ';' node* | 'o' count ';' node*
"""
import struct
import zlib


def d2b(x):
    return struct.unpack('<Q', struct.pack('<d', x))[0]


def b2d(b):
    return struct.unpack('<d', struct.pack('<Q', b))[0]


INT_MAX = 2147483647
INT_MIN = -2147483648


def sat_int(x):
    """valueint for a double, as the library documents: truncate toward zero, saturate."""
    if x != x:
        return None  # (int)NaN is unspecified; callers must not rely on it
    if x >= INT_MAX:
        return INT_MAX
    if x <= INT_MIN:
        return INT_MIN
    return int(x)


class Node:
    __slots__ = ('kind', 'key', 'kconst', 'ref', 'bits', 'ival', 'sval', 'kids', 'parent', 'uid', 'reft')
    _uid = 0

    def __init__(self, kind, key=None, kconst=False, ref=False, bits=0, ival=0, sval=None, kids=None):
        self.kind = kind
        self.key = key
        self.kconst = kconst
        self.ref = ref
        self.bits = bits
        self.ival = ival
        self.sval = sval
        self.kids = kids if kids is not None else ([] if kind in 'ao' else None)
        self.parent = None
        self.reft = None
        Node._uid += 1
        self.uid = Node._uid

    # constructors
    @staticmethod
    def num(x, key=None):
        iv = sat_int(x)
        return Node('n', key=key, bits=d2b(x), ival=0 if iv is None else iv)

    @staticmethod
    def numbits(bits, key=None):
        x = b2d(bits)
        iv = sat_int(x)
        return Node('n', key=key, bits=bits, ival=0 if iv is None else iv)

    @staticmethod
    def string(b, key=None):
        return Node('s', key=key, sval=bytes(b))

    @property
    def dbl(self):
        return b2d(self.bits)

    def clone(self):
        n = Node(self.kind, self.key, self.kconst, self.ref, self.bits, self.ival, self.sval)
        if self.kids is not None:
            n.kids = [c.clone() for c in self.kids]
            for c in n.kids:
                c.parent = n
        return n


def to_tn(n, out=None, with_key=True):
    """Serialise a model tree exactly as the driver's walker would (iterative: deep trees)."""
    top = out is None
    if top:
        out = []
    stack = [(n, with_key)]
    while stack:
        m, wk = stack.pop()
        if wk and m.key is not None:
            out.append(('c' if m.kconst else 'k') + m.key.hex() + ';')
        if m.ref:
            out.append('r')
        k = m.kind
        if k in 'ztf':
            out.append(k)
        elif k == 'n':
            out.append('n%016x,%d;' % (m.bits, m.ival))
        elif k in 'sw':
            out.append(k + ('!' if m.sval is None else m.sval.hex()) + ';')
        elif k in 'ao':
            out.append('%s%d;' % (k, len(m.kids)))
            for c in reversed(m.kids):
                stack.append((c, True))
        else:
            raise ValueError(k)
    if top:
        return ''.join(out)


def tn_crc(n, with_key=True):
    s = to_tn(n, with_key=with_key).encode()
    return '%08x:%d' % (zlib.crc32(s) & 0xffffffff, len(s))


def crc_of(s):
    if isinstance(s, str):
        s = s.encode()
    return '%08x:%d' % (zlib.crc32(s) & 0xffffffff, len(s))


def from_tn(s):
    """Parse TN text back into Nodes (iterative)."""
    pos = 0
    root = None
    stack = []  # (node, remaining)

    def hexfield(p):
        e = s.index(';', p)
        return s[p:e], e + 1

    while True:
        key = None
        kconst = False
        ref = False
        c = s[pos]
        if c in 'kc':
            h, pos = hexfield(pos + 1)
            key = bytes.fromhex(h)
            kconst = c == 'c'
            c = s[pos]
        if c == 'r':
            ref = True
            pos += 1
            c = s[pos]
        pos += 1
        if c in 'ztf':
            n = Node(c, key, kconst, ref)
        elif c == 'n':
            f, pos = hexfield(pos)
            b, iv = f.split(',')
            n = Node('n', key, kconst, ref, bits=int(b, 16), ival=int(iv))
        elif c in 'sw':
            h, pos = hexfield(pos)
            n = Node(c, key, kconst, ref, sval=None if h == '!' else bytes.fromhex(h))
        elif c in 'ao':
            f, pos = hexfield(pos)
            n = Node(c, key, kconst, ref)
            cnt = int(f)
        elif c == 'i':
            f, pos = hexfield(pos)
            n = Node('i', key, kconst, ref, ival=int(f))
        else:
            raise ValueError('bad TN at %d: %r' % (pos, s[pos - 1:pos + 10]))
        if stack:
            par = stack[-1][0]
            par.kids.append(n)
            n.parent = par
            stack[-1][1] -= 1
        else:
            root = n
        if c in 'ao' and cnt > 0:
            stack.append([n, cnt])
        while stack and stack[-1][1] == 0:
            stack.pop()
        if not stack:
            break
    return root


def hx(b):
    """bytes token for the case file"""
    if b is None:
        return '~'
    return '=' + bytes(b).hex()
