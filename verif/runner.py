"""Build the monitored driver from the tree under test, run case files through it, parse the
event log, and turn observations into verdicts / evidence."""
import os
import re
import sys
import json
import time
import shutil
import hashlib
import subprocess
import multiprocessing as mp

VERIF = os.path.dirname(os.path.dirname(os.path.abspath(__file__)))
REPO = os.environ.get('VERIF_REPO', '/repo')
SEED = int(os.environ.get('VERIF_SEED', '1') or 1)
NPROC = int(os.environ.get('VERIF_JOBS', '0') or 0) or min(16, os.cpu_count() or 4)


class HarnessFailure(Exception):
    pass


# ---------------------------------------------------------------------------------------------
# build

class Build:
    def __init__(self, tag):
        self.dir = os.path.join(VERIF, '.build', '%s-%d' % (tag, os.getpid()))
        os.makedirs(self.dir, exist_ok=True)
        self.bins = {}

    def make_locale(self):
        """a minimal LC_NUMERIC-only locale whose decimal point is a comma (none is installed in this
        image, but localedef is): the ENABLE_LOCALES code paths can then be exercised for real"""
        L = os.path.join(self.dir, 'loc')
        os.makedirs(L, exist_ok=True)
        with open(os.path.join(L, 'ascii.cm'), 'w') as f:
            f.write('<code_set_name> ASCII7\n<comment_char> %\n<escape_char> /\nCHARMAP\n')
            for i in range(128):
                f.write('<U%04X>     /x%02x         CH%d\n' % (i, i, i))
            f.write('END CHARMAP\n')
        with open(os.path.join(L, 'comma.src'), 'w') as f:
            f.write('comment_char %\nescape_char /\nLC_NUMERIC\ndecimal_point "<U002C>"\nthousands_sep ""\ngrouping -1\nEND LC_NUMERIC\n')
        subprocess.run(['localedef', '-c', '-f', os.path.join(L, 'ascii.cm'), '-i', os.path.join(L, 'comma.src'), os.path.join(L, 'xx_COMMA')],
                       stdout=subprocess.DEVNULL, stderr=subprocess.DEVNULL)
        if os.path.exists(os.path.join(L, 'xx_COMMA', 'LC_NUMERIC')):
            os.environ['LOCPATH'] = L
            return True
        return False

    def make(self, flavours):
        self.have_locale = self.make_locale()
        procs = []
        for fl in flavours:
            out = os.path.join(self.dir, fl)
            p = subprocess.Popen([os.path.join(VERIF, 'driver', 'build.sh'), fl, out, REPO],
                                 stdout=subprocess.PIPE, stderr=subprocess.STDOUT)
            procs.append((fl, out, p))
        for fl, out, p in procs:
            txt = p.communicate()[0].decode(errors='replace')
            if p.returncode != 0:
                raise HarnessFailure('build of flavour %s failed:\n%s' % (fl, txt[-4000:]))
            self.bins[fl] = os.path.join(out, 'cjv_' + fl)
        return self.bins

    def cleanup(self):
        if os.environ.get('VERIF_KEEP'):
            print('kept build dir', self.dir)
            return
        shutil.rmtree(self.dir, ignore_errors=True)
        try:
            os.rmdir(os.path.join(VERIF, '.build'))
        except OSError:
            pass


# ---------------------------------------------------------------------------------------------
# log records

class CaseLog:
    __slots__ = ('id', 'ops', 'seq', 'vios', 'end', 'died', 'cfgs', 'san')

    def __init__(self, cid):
        self.id = cid
        self.ops = {}      # op index -> fields (last occurrence)
        self.seq = []      # ordered records: ('R', idx, fields) ('F', k) ('G', k, live) ('V', idx, key, detail)
        self.vios = []     # (opidx, key, detail)
        self.end = None    # dict of the E record
        self.died = False
        self.cfgs = []     # C records (counters at cfg switches)
        self.san = None    # sanitizer report text when the worker died


def _kv(fields):
    d = {}
    for f in fields:
        if '=' in f:
            k, v = f.split('=', 1)
            d[k] = v
    return d


def parse_log(path):
    """-> (dict case id -> CaseLog, finished flag, harness failure text)"""
    cases = {}
    cur = None
    finished = False
    harness = None
    with open(path, 'r', errors='replace') as f:
        for line in f:
            if not line.endswith('\n'):
                break  # torn last line of a killed worker
            c = line[0]
            if c == 'R':
                p = line.split()
                idx = int(p[2])
                fl = p[3:]
                cur.ops[idx] = fl
                cur.seq.append(('R', idx, fl))
            elif c == 'B':
                cur = CaseLog(int(line.split()[1]))
                cases[cur.id] = cur
            elif c == 'V':
                p = line.rstrip('\n').split(' ', 4)
                det = p[4] if len(p) > 4 else ''
                cur.vios.append((int(p[2]), p[3], det))
                cur.seq.append(('V', int(p[2]), p[3], det))
            elif c == 'E':
                p = line.split()
                cur.end = _kv(p[2:])
            elif c == 'C':
                p = line.split()
                cur.cfgs.append(_kv(p[2:]))
            elif c == 'F':
                p = line.split()
                cur.seq.append(('F', p[2], _kv(p[3:])))
            elif c == 'G':
                p = line.split()
                cur.seq.append(('G', int(p[2]), _kv(p[3:])))
            elif c == 'X':
                if cur is not None:
                    cur.died = True
            elif c == 'H':
                harness = line.strip()
            elif c == 'Z':
                finished = True
    return cases, finished, harness


SAN_ENV = {
    'ASAN_OPTIONS': 'abort_on_error=1:detect_leaks=0:allocator_may_return_null=1:handle_abort=0:detect_stack_use_after_return=0:malloc_context_size=12',
    'UBSAN_OPTIONS': 'print_stacktrace=1:halt_on_error=1',
    'MSAN_OPTIONS': 'abort_on_error=1:halt_on_error=1',
}

_frame_re = re.compile(r'#\d+ 0x[0-9a-f]+ in (\w+) [^\n]*?(cJSON(?:_Utils)?\.c):(\d+)')


def classify_sanitizer(text):
    """stderr of a dead sanitizer worker -> (key, short text)"""
    m = re.search(r'ERROR: (AddressSanitizer|MemorySanitizer|LeakSanitizer): ([A-Za-z0-9_-]+)', text)
    kind = None
    if m:
        kind = m.group(1).replace('Sanitizer', '').lower() + 'san/' + m.group(2)
        if m.group(2) == 'SEGV':
            # which kind of access
            kind = 'asan/SEGV'
    else:
        m = re.search(r'WARNING: MemorySanitizer: ([A-Za-z0-9_-]+)', text)
        if m:
            kind = 'msan/' + m.group(1)
    if not kind:
        m = re.search(r'(cJSON(?:_Utils)?\.c):\d+:\d+: runtime error: ([^\n]*)', text)
        if m:
            msg = re.sub(r'0x[0-9a-f]+', 'ADDR', m.group(2))
            msg = re.sub(r'-?\d+(\.\d+)?(e[+-]?\d+)?', 'N', msg)
            kind = 'ubsan/' + '-'.join(msg.split()[:6])
    if not kind:
        return None, text[-1500:]
    fr = _frame_re.search(text)
    func = fr.group(1) if fr else '?'
    return '%s@%s' % (kind, func), text[:3000]


HEAP_DAMAGE = ('ledger/tail-canary', 'ledger/under-run', 'ledger/write-after-free', 'ledger/heap-over-access', 'ledger/double-free', 'ledger/foreign-free')


def run_driver(binary, cases_path, log_path, thorough=False, timeout=3600):
    """Run a case file to completion, restarting after every death.  Returns dict id -> CaseLog."""
    if os.path.exists(log_path):
        os.unlink(log_path)
    env = dict(os.environ)
    env.update(SAN_ENV)
    all_cases = {}
    start_from = None
    restarts = 0
    hangs = 0
    aborted = [False]
    err_path = log_path + '.stderr'
    while True:
        cmd = [binary]
        if thorough:
            cmd.append('--thorough')
        if start_from is not None:
            cmd += ['--from', str(start_from)]
        cmd += [cases_path, log_path]
        if os.path.exists(log_path):
            os.unlink(log_path)
        with open(err_path, 'wb') as ef:
            try:
                rc = subprocess.run(cmd, stdout=subprocess.DEVNULL, stderr=ef, env=env, timeout=timeout).returncode
            except subprocess.TimeoutExpired:
                rc = -999
        cases, finished, harness = parse_log(log_path) if os.path.exists(log_path) else ({}, False, None)
        if (harness or rc == 2) and cases and 'harness-crash' in str(harness) and any(
                k.startswith(HEAP_DAMAGE) for c in cases.values() for (_i, k, _d) in c.vios):
            # the driver crashed outside a library call, but in this very process a monitor had already
            # seen the library damage the heap (overrun canary, write after free, ...): the crash is the
            # late effect of that violation (the C library's own heap checks fired), not a harness defect
            harness = None
            rc = 3
            finished = False
        if harness and cases and 'harness-crash' in str(harness):
            # the driver crashed outside a library call with no heap damage on record: no verdict on this
            # case, but it must not wipe out what the other cases and the other builds observe (a
            # violation found elsewhere still stands; without one the run is inconclusive, exit 2)
            last = max(cases)
            with open(err_path, 'r', errors='replace') as ef:
                cases[last].vios.append((max(cases[last].ops) if cases[last].ops else -1, 'harness/crash', '%s | %s' % (harness, ef.read()[-1500:].replace('\n', ' | '))))
            harness = None
            rc = 3
            finished = False
        if harness or rc == 2:
            with open(err_path, 'r', errors='replace') as ef:
                raise HarnessFailure('driver harness failure: %s\n%s' % (harness, ef.read()[-3000:]))
        all_cases.update(cases)
        if finished:
            break
        # the worker died inside some case: attribute, then continue after it
        if not cases:
            with open(err_path, 'r', errors='replace') as ef:
                raise HarnessFailure('driver died before the first case (rc=%s): %s' % (rc, ef.read()[-3000:]))
        last = max(cases)
        cl = cases[last]
        cl.died = True
        with open(err_path, 'r', errors='replace') as ef:
            cl.san = ef.read()
        if rc == -999:
            cl.vios.append((-1, 'hang', 'worker exceeded the outer watchdog'))
        elif not cl.vios:
            key, short = classify_sanitizer(cl.san)
            cl.vios.append((max(cl.ops) if cl.ops else -1, key or ('crash/exit-%s' % rc), short[:400].replace('\n', ' | ')))
        else:
            # refine the generic in-process record with the sanitizer's classification
            key, short = classify_sanitizer(cl.san)
            if key:
                cl.vios = [(i, (key if k.startswith('sanitizer/') or k == 'crash/abort' else k), d) for (i, k, d) in cl.vios]
        start_from = last + 1
        restarts += 1
        if any(k == 'hang' for (_i, k, _d) in cl.vios):
            hangs += 1
            if hangs >= 4:
                # every further hanging case would cost another watchdog period: the verdict is
                # already "violated", stop this batch here
                aborted[0] = True
                break
        if restarts > 2000:
            raise HarnessFailure('too many worker deaths')
    for p in (err_path,):
        if os.path.exists(p):
            os.unlink(p)
    if aborted[0]:
        all_cases['aborted'] = True
    return all_cases


# ---------------------------------------------------------------------------------------------
# violations, findings, evidence

# mechanical keys that belong to one property only; everything else belongs to whichever
# property's check issued the call (a crash, a leak or a broken tree refutes "the call returns X")
OWNERS = [
    ('c10/', {'C10'}),
    ('c02/', {'C02'}),
    ('leak/parse-reject', {'C03', 'C01'}),
    ('leak/parse-print-delete', {'C01', 'C07'}),
    ('prealloc/differs', {'C09', 'C05', 'C01', 'C04'}),
    ('prealloc/', {'C09'}),
    ('print/buffered', {'C04', 'C05'}),
    ('print/', {'C04', 'C05', 'C01'}),
    ('roundtrip/', {'C04'}),
    ('minify/', {'C13'}),
    ('dup/', {'C11'}),
    ('compare/', {'C12'}),
    ('hooks/', {'C14'}),
]


def owners_of(key):
    for pre, own in OWNERS:
        if key.startswith(pre):
            return own
    return None  # any


class Violation:
    def __init__(self, prop, key, detail, witness):
        self.prop = prop
        self.key = key if key.startswith(prop + '/') else '%s/%s' % (prop, key)
        self.detail = detail
        self.witness = witness

    def to_json(self):
        return {'property': self.prop, 'key': self.key, 'detail': self.detail, 'witness': self.witness}


def mechanical_violations(prop, clog, witness_fn):
    """V records of a case that count against property `prop`."""
    out = []
    for (idx, key, det) in clog.vios:
        own = owners_of(key)
        if own is not None and prop not in own:
            continue
        call = ''
        m = re.search(r'call=(\S+)', det)
        if m and not re.search(r'@\w+$', key) and key.startswith(('crash/', 'guard/', 'stack-overflow', 'hang', 'runaway', 'sanitizer/', 'ledger/', 'hooks/', 'borrowed')):
            call = '@' + m.group(1)
        out.append(Violation(prop, key + call, det[:600], witness_fn(clog, idx)))
    return out


def load_known():
    known = []
    p = os.path.join(VERIF, 'KNOWN_FINDINGS.txt')
    if os.path.exists(p):
        for line in open(p):
            line = line.strip()
            m = re.match(r'known:\s+property=(\S+)\s+key=(\S+)\s+(.*)', line)
            if m:
                known.append((m.group(1), m.group(2), m.group(3)))
    return known


def settle(prop, tier, violations, coverage, level, assumptions, wall, inconclusive=None):
    """Print verdict lines, write evidence + replay files, return the exit code."""
    # self-tests (seeded changes, coverage surveys) send their output elsewhere so that the evidence
    # of the last real run is not overwritten
    out_root = os.environ.get('VERIF_OUT', VERIF)
    os.makedirs(os.path.join(out_root, 'evidence'), exist_ok=True)
    os.makedirs(os.path.join(out_root, 'replays'), exist_ok=True)
    known = load_known()
    by_key = {}
    harness_trouble = [v for v in violations if '/harness/' in '/' + v.key + '/' or v.key.startswith('harness/')]
    violations = [v for v in violations if v not in harness_trouble]
    if harness_trouble and not inconclusive:
        inconclusive = 'the driver crashed outside a library call in %d case(s) (first: %s)' % (len(harness_trouble), harness_trouble[0].detail[:300])
    for v in violations:
        by_key.setdefault(v.key, []).append(v)
    real = 0
    matched = []
    for key, vs in sorted(by_key.items()):
        k = [kf for kf in known if kf[0] == prop and (key == kf[1] or key.startswith(kf[1]))]
        if k:
            print('KNOWN-FINDING: property=%s %s (key=%s, %d occurrences)' % (prop, k[0][2], key, len(vs)))
            matched.append(key)
            continue
        real += 1
        h = hashlib.sha1(key.encode()).hexdigest()[:10]
        rp = os.path.join(out_root, 'replays', '%s-%s.json' % (prop, h))
        with open(rp, 'w') as f:
            json.dump({'property': prop, 'key': key, 'occurrences': len(vs), 'tier': tier, 'seed': SEED,
                       'first': vs[0].to_json(), 'more': [v.to_json() for v in vs[1:4]]}, f, indent=1)
        print('VIOLATION property=%s replay=%s' % (prop, rp))
        print('  key=%s occurrences=%d' % (key, len(vs)))
        print('  %s' % vs[0].detail[:300])
    cov = dict(coverage)
    cov['violation_keys'] = sorted(by_key.keys())[:50]
    cov['known_findings_matched'] = matched
    ev = {'property_id': prop, 'tier': tier, 'seed': SEED, 'level': level, 'coverage': cov,
          'assumptions': assumptions, 'wall_s': round(wall, 2), 'violations': real}
    if inconclusive:
        ev['coverage']['inconclusive'] = inconclusive
    with open(os.path.join(out_root, 'evidence', prop + '.json'), 'w') as f:
        json.dump(ev, f, indent=1, default=str)
    if real:
        return 1
    if inconclusive:
        print('INCONCLUSIVE property=%s: %s' % (prop, inconclusive))
        return 2
    print('OK property=%s tier=%s seed=%d evaluations=%s distinct_nontrivial=%s wall=%.1fs' %
          (prop, tier, SEED, cov.get('evaluations'), cov.get('distinct_nontrivial'), wall))
    return 0


# ---------------------------------------------------------------------------------------------
# sharded execution

_G = {}


def _shard_entry(args):
    mod_name, shard, bins, workdir, tier = args
    import importlib
    mod = importlib.import_module(mod_name)
    try:
        return ('ok', mod.run_shard(shard, bins, workdir, tier))
    except HarnessFailure as e:
        return ('harness', str(e))
    except Exception:
        import traceback
        return ('harness', traceback.format_exc())


def run_sharded(mod_name, shards, bins, workdir, tier):
    args = [(mod_name, s, bins, workdir, tier) for s in shards]
    if NPROC <= 1 or len(shards) <= 1:
        res = [_shard_entry(a) for a in args]
    else:
        with mp.Pool(min(NPROC, len(shards))) as pool:
            res = pool.map(_shard_entry, args, chunksize=1)
    out = []
    for st, r in res:
        if st != 'ok':
            raise HarnessFailure(r)
        out.append(r)
    return out


def effective_cfg(cid, cfg):
    """errno holds whatever earlier, unrelated calls left there; a fixed share of all cases runs
    with a stale ERANGE / EINVAL / ENOMEM in place at the start of every library call"""
    if '+' in cfg:
        return cfg
    r = cid % 7
    return cfg + {3: '+e34', 5: '+e22', 6: '+e12'}.get(r, '')


def write_cases(path, cases):
    """cases: list of (id, cfg, [op lines])"""
    with open(path, 'w') as f:
        for cid, cfg, ops in cases:
            f.write('case %d %s\n' % (cid, effective_cfg(cid, cfg)))
            f.write('\n'.join(ops))
            f.write('\nend\n')


# ---------------------------------------------------------------------------------------------
# shard results

class ShardOut:
    """what one shard observed; merged across shards into the evidence"""

    def __init__(self):
        self.vios = []
        self.stats = {}
        self.samples = []
        self.distinct = set()
        self.evals = 0
        self.notes = []

    def count(self, k, n=1):
        self.stats[k] = self.stats.get(k, 0) + n

    def sample(self, s, cap=6):
        if len(self.samples) < cap:
            self.samples.append(s)

    def seen(self, *parts):
        h = hashlib.blake2b(repr(parts).encode(), digest_size=8).digest()
        self.distinct.add(h)

    def merge(self, o):
        self.vios += o.vios
        for k, v in o.stats.items():
            if k.endswith('_max') or k.endswith('_bytes'):
                self.stats[k] = max(self.stats.get(k, 0), v)
            elif isinstance(v, (int, float)):
                self.stats[k] = self.stats.get(k, 0) + v
            else:
                self.stats[k] = v
        for s in o.samples:
            if len(self.samples) < 10:
                self.samples.append(s)
        self.distinct |= o.distinct
        self.evals += o.evals
        self.notes += o.notes


def case_witness(cases_by_id, flavour, thorough=False):
    def w(clog, idx):
        cid = clog.id
        cfg, ops = cases_by_id[cid]
        txt = 'case %d %s\n%s\nend\n' % (cid, effective_cfg(cid, cfg), '\n'.join(ops))
        if len(txt) > 200000:
            txt = txt[:200000] + '\n#...truncated\n'
        return {'flavour': flavour, 'case': txt, 'op_index': idx, 'thorough': thorough}
    return w


def run_batch(binary, flavour, cases, workdir, tag, thorough=False):
    """cases: list of (id, cfg, [ops]) -> dict id -> CaseLog.  Files are removed afterwards."""
    cpath = os.path.join(workdir, '%s-%s.cases' % (tag, flavour))
    lpath = os.path.join(workdir, '%s-%s.log' % (tag, flavour))
    write_cases(cpath, cases)
    try:
        logs = run_driver(binary, cpath, lpath, thorough)
    finally:
        if not os.environ.get('VERIF_KEEP'):
            for p in (cpath, lpath, lpath + '.stderr'):
                if os.path.exists(p):
                    os.unlink(p)
    aborted = logs.pop('aborted', False)
    missing = [c[0] for c in cases if c[0] not in logs]
    if missing and not aborted:
        raise HarnessFailure('cases without log records: %s' % missing[:5])
    for cid in missing:
        cl = CaseLog(cid)       # not run: the batch was cut short after repeated hangs
        cl.died = True
        logs[cid] = cl
    return logs


def gcov_summary(covdir, functions):
    """line coverage of the library files (and of selected functions) from a --coverage build"""
    out = {}
    for src in ('cJSON', 'cJSON_Utils'):
        gcda = os.path.join(covdir, 'cov-%s.gcda' % src)
        if not os.path.exists(gcda):
            continue
        r = subprocess.run(['gcov', '-f', '-o', covdir, gcda], cwd=covdir, stdout=subprocess.PIPE, stderr=subprocess.DEVNULL, text=True)
        cur = None
        for line in r.stdout.splitlines():
            m = re.match(r"(Function|File) '([^']+)'", line)
            if m:
                cur = (m.group(1), m.group(2))
                continue
            m = re.match(r'Lines executed:([0-9.]+)% of (\d+)', line)
            if m and cur:
                if cur[0] == 'File' and cur[1].endswith(src + '.c'):
                    out[src + '.c'] = '%s%% of %s lines' % (m.group(1), m.group(2))
                elif cur[0] == 'Function' and cur[1] in functions:
                    out[cur[1]] = '%s%% of %s' % (m.group(1), m.group(2))
                cur = None
    return out
