"""C15-C18: cJSON_Utils against the RFC 6901 / 6902 / 7396 reference evaluators."""
import random
from . import rfc, treegen
from .runner import ShardOut, Violation, run_batch, mechanical_violations, case_witness, SEED, HarnessFailure
from .tn import Node, to_tn, from_tn, hx, d2b, tn_crc

PTR_KEYS = [b'', b'a', b'A', b'/', b'~', b'~0', b'~1', b'a/b', b'm~n', b'0', b'1', b'01', b'-', b' ', b'1A', b'foo', b'FOO', b'Foo', b'b', b'k~/k',
            b'\xc3\xa9', b'\xc3\xa9t\xc3\xa9', b'\xe6\x97\xa5', b'z\xc3\xbc', b'\xff', b'\x7f', b'\x80a',
            # the names RFC 6902 gives to the members of an operation, and their other-case spellings
            b'value', b'Value', b'VALUE', b'op', b'OP', b'path', b'Path', b'from', b'From']


def wrapping_indices(L):
    """decimal index tokens far beyond any array that come back into range when truncated to 31,
    32, 63 or 64 bits"""
    out = []
    for M in (2 ** 31, 2 ** 32, 2 ** 33, 2 ** 63, 2 ** 64 - 2 ** 32, 3 * 2 ** 32):
        out += [b'%d' % M, b'%d' % (M + max(L - 1, 0)), b'%d' % (M + 1)]
    return out
NUMS = [0.0, 1.0, -1.0, 1.5, 1e20, 42.0, 2147483648.0, 0.25, -7e-3, 123456789.0,
        # whole numbers whose integer view saturates (all alike at INT_MAX / INT_MIN)
        2147483647.0, 3000000000.0, 4294967296.0, -2147483648.0, -2147483649.0, -1e20, 9007199254740992.0,
        # magnitudes far below 1, pairwise further apart than any tolerance could bridge
        1e-20, 3e-20, 1e-17, 5e-324, 1e-310, 3e-310, -1e-310, 2.5e-300, -2.5e-300, 6.626e-34, 2.2250738585072014e-308]
STRS = [b'', b'x', b'X', b'hello', b'a/b', b'~', b'\xc3\xa9', b'with space', b'0']


def deep_cases(prop):
    """documents at the parser's nesting limit that differ only in the innermost value: generation must
    see the difference, application must reach it (expected records per op index)"""
    from . import jsonref
    from .runner import REPO
    lim = jsonref.nesting_limit(REPO)
    out = []
    for op, cl in ((b'[', b']'), (b'{"a":', b'}')):
        for depth in (lim - 1, lim):
            for la, lb in ((b'"x"', b'"y"'), (b'1', b'2'), (b'{"k":1}', b'{"k":1,"n":null}') if prop == 'C17' else (b'{"k":1}', b'{"k":1,"n":2}'), (b'{"k":1,"gone":2}', b'{"k":1}'), (b'[1]', b'[1,2]')):
                if la[:1] in b'{[' and depth == lim:
                    continue
                if prop == 'C18' and op == b'[':
                    continue      # merge patches replace arrays wholesale: nothing deep to reach
                ta = '*%d:%s:%s:%s' % (depth, op.hex(), la.hex(), cl.hex())
                tb = '*%d:%s:%s:%s' % (depth, op.hex(), lb.hex(), cl.hex())
                if prop == 'C15':
                    if la[:1] in b'{[' or lb != b'"y"' and lb != b'2':
                        continue
                    tokp = (b'/0' if op == b'[' else b'/a') * depth
                    ops = ['parse 1 2 %s 0' % ta, 'getp 2 1 %s 1' % hx(tokp), 'findp 1 2', 'getp 3 1 %s 1' % hx(tokp + b'/0'), 'getp 3 1 %s 1' % hx(tokp[:-2]), 'del 1']
                    exp = {1: [str(depth)], 2: [hx(tokp)], 3: ['nil'], 4: [str(depth - 1)]}
                    nonzero = None
                elif prop == 'C16':
                    if la[:1] in b'{[' or lb != b'"y"':
                        continue
                    tokp = (b'/0' if op == b'[' else b'/a') * depth
                    patch = ('a3;o3;k6f70;s%s;k70617468;s%s;k76616c7565;s79;' % (b'replace'.hex(), tokp.hex())
                             + 'o3;k6f70;s%s;k70617468;s%s;k76616c7565;s79;' % (b'test'.hex(), tokp.hex())
                             + 'o3;k6f70;s%s;k66726f6d;s%s;k70617468;s%s;' % (b'copy'.hex(), tokp.hex(), (tokp[:-2] + (b'/-' if op == b'[' else b'/zz')).hex()))
                    want = lb if op != b'[' else None
                    ops = ['parse 1 2 %s 0' % ta, 'build 2 ' + patch, 'patch 1 2 1', 'chk 1', 'getp 3 1 %s 1' % hx(tokp), 'gsv 3', 'del 1', 'del 2']
                    exp = {2: ['0'], 4: [str(depth)], 5: [hx(b'y')]}
                    nonzero = None
                elif prop == 'C17':
                    ops = ['parse 1 2 %s 0' % ta, 'parse 2 2 %s 0' % tb, 'genp 3 1 2 1', 'size 3', 'parse 4 2 %s 0' % ta, 'patch 4 3 1', 'cmp 4 2 1', 'chk 1', 'chk 2', 'del 1', 'del 2', 'del 3', 'del 4']
                    exp = {2: ['p'], 5: ['0'], 6: ['1']}
                    nonzero = 3
                else:
                    ops = ['parse 1 2 %s 0' % ta, 'parse 2 2 %s 0' % tb, 'genm 3 1 2 1', 'parse 4 2 %s 0' % ta, 'merge 5 4 3 1', 'cmp 5 2 1', 'chk 1', 'chk 2', 'del 1', 'del 2', 'del 3', 'del 5']
                    exp = {2: ['p'], 4: ['p'], 5: ['1']}
                    nonzero = None
                out.append((ops, exp, nonzero, 'depth %d, %s -> %s' % (depth, la.decode(), lb.decode())))
    # breadth: containers with more children than either limit allows levels
    N = 12000
    wide_a = 'a%d;' % N + ''.join('n%016x,%d;' % (d2b(float(i % 97)), i % 97) for i in range(N))
    M = 3000
    wide_o = 'o%d;' % M + ''.join('k%s;n%016x,%d;' % ((b'm%d' % i).hex(), d2b(float(i % 89)), i % 89) for i in range(M))
    if prop == 'C15':
        out.append((['build 1 ' + wide_a, 'getp 2 1 %s 1' % hx(b'/%d' % (N - 1)), 'findp 1 2', 'getp 3 1 %s 1' % hx(b'/%d' % N), 'getp 3 1 =2f30 1', 'del 1'],
                    {1: [str(N)], 2: [hx(b'/%d' % (N - 1))], 3: ['nil'], 4: ['1']}, None, 'array of %d elements' % N))
        out.append((['build 1 ' + wide_o, 'getp 2 1 %s 1' % hx(b'/m%d' % (M - 1)), 'findp 1 2', 'getp 3 1 %s 1' % hx(b'/m%d' % M), 'del 1'],
                    {1: [str(M)], 2: [hx(b'/m%d' % (M - 1))], 3: ['nil']}, None, 'object of %d members' % M))
    elif prop == 'C16':
        patch = ('a4;o3;k6f70;s616464;k70617468;s2f2d;k76616c7565;t' + 'o3;k6f70;s616464;k70617468;s%s;k76616c7565;f' % (b'/%d' % (N // 2)).hex()
                 + 'o2;k6f70;s72656d6f7665;k70617468;s%s;' % (b'/%d' % N).hex() + 'o3;k6f70;s74657374;k70617468;s%s;k76616c7565;t' % (b'/%d' % N).hex())
        out.append((['build 1 ' + wide_a, 'build 2 ' + patch, 'patch 1 2 1', 'size 1', 'chk 1', 'geta 1 %d 3' % (N // 2), 'is 3', 'del 1', 'del 2'],
                    {2: ['0'], 3: [str(N + 1)], 5: [str(N // 2)], 6: [str(2 | 8)]}, None, 'patch on an array of %d elements' % N))
    elif prop == 'C17':
        to_a = 'a%d;' % (N + 1) + ''.join('n%016x,%d;' % (d2b(float(i % 97 if i != N // 2 else 1234)), i % 97 if i != N // 2 else 1234) for i in range(N)) + 't'
        out.append((['build 1 ' + wide_a, 'build 2 ' + to_a, 'genp 3 1 2 1', 'size 3', 'build 4 ' + wide_a, 'patch 4 3 1', 'cmp 4 2 1', 'chk 1', 'chk 2', 'del 1', 'del 2', 'del 3', 'del 4'],
                    {2: ['p'], 3: ['2'], 5: ['0'], 6: ['1']}, None, 'arrays of %d elements' % N))
    elif prop == 'C18':
        to_o = 'o%d;' % (M - 1) + ''.join('k%s;n%016x,%d;' % ((b'm%d' % i).hex(), d2b(float(i % 89 if i != 7 else 555)), i % 89 if i != 7 else 555) for i in range(M) if i != M // 2)
        out.append((['build 1 ' + wide_o, 'build 2 ' + to_o, 'genm 3 1 2 1', 'size 3', 'build 4 ' + wide_o, 'merge 5 4 3 1', 'cmp 5 2 1', 'chk 1', 'chk 2', 'del 1', 'del 2', 'del 3', 'del 5'],
                    {2: ['p'], 3: ['2'], 5: ['p'], 6: ['1']}, None, 'objects of %d members' % M))
    if prop in ('C17', 'C18'):
        # documents deeper than the parser allows can be built through the API: the innermost object
        # loses / gains / changes a member
        for depth in (1001, 1500):
            for la, lb in (('o2;k61;n3ff0000000000000,1;k62;n4000000000000000,2;', 'o1;k61;n3ff0000000000000,1;'), ('o1;k61;t', 'o2;k61;tk6e6577;s78;'), ('o1;k61;s78;', 'o1;k61;s79;')):
                if prop == 'C17':
                    ops = ['deepchain 1 o %d 0 %s' % (depth, la), 'deepchain 2 o %d 0 %s' % (depth, lb), 'genp 3 1 2 1', 'size 3', 'deepchain 4 o %d 0 %s' % (depth, la), 'patch 4 3 1', 'cmp 4 2 1', 'chk 1', 'chk 2', 'del 1', 'del 2', 'del 3', 'del 4']
                    exp = {2: ['p'], 5: ['0'], 6: ['1']}
                    nonzero = 3
                else:
                    ops = ['deepchain 1 o %d 0 %s' % (depth, la), 'deepchain 2 o %d 0 %s' % (depth, lb), 'genm 3 1 2 1', 'deepchain 4 o %d 0 %s' % (depth, la), 'merge 5 4 3 1', 'cmp 5 2 1', 'chk 1', 'chk 2', 'del 1', 'del 2', 'del 3', 'del 5']
                    exp = {2: ['p'], 4: ['p'], 5: ['1']}
                    nonzero = None
                out.append((ops, exp, nonzero, 'API-built depth %d, innermost %s -> %s' % (depth, la, lb)))
    return out


def plan(prop, tier):
    q = tier == 'quick'
    n = 16 if q else 64
    per = {'C15': 130, 'C16': 1300, 'C17': 650, 'C18': 900}[prop] if q else {'C15': 3500, 'C16': 35000, 'C17': 17000, 'C18': 24000}[prop]
    shards = [('utils', SEED * 1000 + i, per) for i in range(n)]
    if prop in ('C15', 'C16', 'C17', 'C18'):
        shards.append(('deep', 0, 0))
    return ['asan', 'plain', 'efence'], shards


# ---------------------------------------------------------------------------------------------
# documents

def gen_doc(rng, depth=0, maxdepth=4, nulls=True, long_arrays=False, keys=PTR_KEYS):
    r = rng.random()
    if depth >= maxdepth:
        r *= 0.55
    if depth == 0:
        r = 0.6 + r * 0.4
    if r < 0.08:
        return Node('z') if nulls else Node('t')
    if r < 0.16:
        return Node(rng.choice('tf'))
    if r < 0.36:
        return Node.num(rng.choice(NUMS))
    if r < 0.55:
        return Node.string(rng.choice(STRS))
    if r < 0.77:
        n = rng.choice([0, 1, 2, 3, 4]) if not long_arrays else rng.choice([0, 1, 2, 5, 11, 28, 30])
        a = Node('a')
        for _ in range(n):
            c = gen_doc(rng, depth + 1, maxdepth if n < 8 else depth + 1, nulls, False, keys)
            c.parent = a
            a.kids.append(c)
        return a
    n = rng.choice([0, 1, 2, 3, 4, 6])
    o = Node('o')
    ks = rng.sample(keys, min(n, len(keys)))
    if ks and rng.random() < 0.04:
        ks[0] = rng.choice([b'K', b'~', b'/']) * rng.choice([127, 128, 129, 255, 256, 257, 1023, 1024])     # around typical fixed buffer sizes
    for k in ks:
        c = gen_doc(rng, depth + 1, maxdepth, nulls, long_arrays, keys)
        c.key = k
        c.parent = o
        o.kids.append(c)
    return o


def sprinkle_flags(rng, t, p=0.25):
    """constant keys and reference members: ownership flags must never change what a document means"""
    for n in all_nodes(t):
        if n.parent is None:
            continue
        if n.key is not None and n.parent.kind == 'o' and rng.random() < p:
            n.kconst = True
        # only scalars by reference: utilities sort objects in place, and reordering a container
        # through a reference leaves its owner with a stale first-child pointer (user error class,
        # DESIGN.md section 5.7)
        if n.kind in 'ztfns' and rng.random() < p * 0.6:
            n.ref = True
    return t


def all_nodes(t):
    out = []
    st = [t]
    while st:
        m = st.pop()
        out.append(m)
        if m.kids:
            st.extend(reversed(m.kids))
    return out


def index_path(root, node):
    p = []
    n = node
    while n is not root:
        p.append(n.parent.kids.index(n))
        n = n.parent
    return list(reversed(p))


def nav_ops(slot, root_slot, root, node):
    """driver-side navigation (no library call) from the root to node -> ops, leaves node in `slot`"""
    ops = ['mv %d %d' % (slot, root_slot)]
    for i in index_path(root, node):
        ops.append('child %d %d %d' % (slot, slot, i))
    return ops


# ---------------------------------------------------------------------------------------------
# C15

def pointer_variants(rng, doc):
    P = set()
    nodes = all_nodes(doc)
    for n in nodes[:60]:
        c = rfc.canonical_pointer(doc, n)
        P.add(c)
        # single edits of the canonical pointer
        for _ in range(2):
            if c:
                i = rng.randrange(len(c) + 1)
                ch = bytes([rng.choice(b'/~01a-A9 ')])
                r = rng.random()
                if r < 0.4:
                    P.add(c[:i] + ch + c[i:])
                elif r < 0.7 and i < len(c):
                    P.add(c[:i] + c[i + 1:])
                elif i < len(c):
                    P.add(c[:i] + ch + c[i + 1:])
        P.add(c + b'/')
        P.add(c + b'/0')
        P.add(c + b'/-')
        P.add(c + b'/~')
        P.add(c + b'/~2')
        P.add(c + b'~')
        P.add(c[1:])
        if n.kind == 'a':
            L = len(n.kids)
            for t in (b'%d' % L, b'%d' % (L + 1), b'00', b'01', b'0x0', b'-1', b'+0', b'1A', b'0A', b'1e0', b' 0', b'0 ', b'',
                      b'18446744073709551616', b'18446744073709551617', b'%d' % (2 ** 64 + max(L - 1, 0)), b'184467440737095516160', b'99999999999999999999999'):
                P.add(c + b'/' + t)
            for t in wrapping_indices(L):
                P.add(c + b'/' + t)
                if L and n.kids[0].kind in 'ao':
                    P.add(c + b'/' + t + b'/0')
            if L:
                P.add(c + b'/%d' % (L - 1))
                P.add(c + b'/0%d' % (L - 1))
    for _ in range(12):
        P.add(bytes(rng.choice(b'/~01a-A2 ') for _ in range(rng.randrange(0, 7))))
    P |= {b'', b'/', b'//', b'a', b'0', b'~', b'~0', b'~1', b'/~0', b'/~1', b'/~01', b'/~10', b'/~', b'/~2', b'/a~', b'/~0~1', b'/ ', b'/-'}
    return sorted(P)


def case_c15(rng, cid):
    doc = gen_doc(rng, maxdepth=rng.choice([2, 3, 5]), long_arrays=rng.random() < 0.4)
    if rng.random() < 0.5:
        sprinkle_flags(rng, doc)      # constant keys / reference scalars must not change what a pointer designates
    ops = ['build 1 ' + to_tn(doc)]
    exp = {}
    # move an object member to the end of an array elsewhere in the document: the library never
    # clears the key of such an element, and pointers through it are index based all the same
    for _ in range(rng.choice([0, 0, 1, 2])):
        nodes = all_nodes(doc)
        mem = [n for n in nodes if n.parent is not None and n.parent.kind == 'o']
        if not mem:
            break
        m = rng.choice(mem)
        inside = set(id(x) for x in all_nodes(m))
        arrs = [a for a in nodes if a.kind == 'a' and id(a) not in inside and not a.ref]
        if not arrs:
            break
        a = rng.choice(arrs)
        ops += nav_ops(3, 1, doc, m.parent)
        ops += nav_ops(4, 1, doc, m)
        ops += nav_ops(5, 1, doc, a)
        ops += ['detp 3 4 6', 'adda 5 6']
        m.parent.kids.remove(m)
        m.parent = a
        a.kids.append(m)
    for p in pointer_variants(rng, doc):
        if 0 in p:
            continue
        n = rfc.resolve(doc, p)
        exp[len(ops)] = ('resolve', p, ['nil'] if n is None else [str(rfc.preorder_index(doc, n))])
        ops.append('getp 2 1 %s 1' % hx(p))
    nodes = all_nodes(doc)
    rng.shuffle(nodes)
    for n in nodes[:25]:
        ops += nav_ops(3, 1, doc, n)
        c = rfc.canonical_pointer(doc, n)
        exp[len(ops)] = ('construct', c, [hx(c)])
        ops.append('findp 1 3')
    other = 'cnull 4'
    ops.append(other)
    exp[len(ops)] = ('construct-foreign', b'', ['nil'])
    ops.append('findp 1 4')
    ops += ['chk 1', 'del 4', 'del 1']
    return (cid, 'default' if cid % 2 else 'custom', ops), (doc, exp)


def judge_c15(prop, cl, ex, out, wit, first):
    doc, exp = ex
    for idx, (what, p, e) in exp.items():
        got = cl.ops.get(idx)
        out.evals += 1
        if first:
            out.seen(cl.id, idx)
            out.count('nontrivial')
            out.count(what + (':found' if e != ['nil'] else ':null'))
        if got != e:
            if what == 'resolve':
                tail = p.rsplit(b'/', 1)[-1]
                cls = ('no-leading-slash' if p and not p.startswith(b'/') else 'empty-index-token' if p.endswith(b'/') and e == ['nil'] else
                       'index-overflow' if len(tail) > 18 and tail.isdigit() else 'index-trailing-nondigit' if tail[:1].isdigit() and not tail.isdigit() else
                       'escape' if b'~' in p else 'other')
                key = 'C15/resolve/%s/%s' % ('should-be-null' if e == ['nil'] else 'wrong-node', cls)
                det = 'pointer %r on %s: reference designates %s, library returned %s' % (p, to_tn(doc)[:200], e, got)
            else:
                key = 'C15/%s/wrong-pointer' % what
                det = 'node at %r: FindPointerFromObjectTo returned %s' % (p, got)
            out.vios.append(Violation(prop, key, det, wit(cl, idx)))
    if first and cl.id % 23 == 3:
        some = [(p.decode('latin-1'), e[0]) for _, (w, p, e) in sorted(exp.items())[:10] if w == 'resolve']
        out.sample({'document': to_tn(doc)[:200], 'pointers -> preorder index': some})


# ---------------------------------------------------------------------------------------------
# C16

def opobj(**kw):
    o = Node('o')
    for k, v in kw.items():
        k = {'frm': 'from'}.get(k, k)
        if isinstance(v, bytes):
            v = Node.string(v)
        v = v.clone() if v.parent is not None or v.key is not None else v
        v.key = k.encode()
        v.parent = o
        o.kids.append(v)
    return o


def opobj_raw(pairs):
    """operation object with member names given literally (wrong case, duplicates of another case)"""
    o = Node('o')
    for k, v in pairs:
        if isinstance(v, bytes):
            v = Node.string(v)
        v = v.clone() if v.parent is not None or v.key is not None else v
        v.key = k
        v.parent = o
        o.kids.append(v)
    return o


def add_decoys(rng, patch):
    """member names are case sensitive and unknown members are ignored (RFC 6902, section 4): members
    spelled OP / Path / FROM / Value in front of the real ones must change nothing"""
    for op in patch.kids:
        if op.kind == 'o' and rng.random() < 0.15:
            have = {k.key for k in op.kids}
            decoys = []
            for name in rng.sample([b'OP', b'Op', b'PATH', b'Path', b'FROM', b'From', b'VALUE', b'Value'], rng.randrange(1, 4)):
                if name not in have:
                    d = rng.choice([Node.string(b'remove'), Node.string(b'/'), Node.string(b''), Node.string(b'/0'), Node.string(b'bogus'), Node('z'), Node.num(1.0), Node('a')])
                    d = d.clone()
                    d.key = name
                    d.parent = op
                    decoys.append(d)
            if rng.random() < 0.7:
                op.kids[0:0] = decoys
            else:
                op.kids += decoys
    return patch


def random_value(rng):
    return gen_doc(rng, depth=2, maxdepth=3)


def gen_valid_ops(rng, doc, nops):
    """simulate RFC evaluation on `doc` (modified in place) choosing meaningful operations"""
    patch = Node('a')
    for _ in range(nops):
        nodes = all_nodes(doc)
        conts = [n for n in nodes if n.kind in 'ao']
        kind = rng.choice(['add', 'add', 'remove', 'replace', 'test', 'copy', 'move', 'move'])
        op = None
        if kind == 'add':
            if not conts or rng.random() < 0.05:
                op = opobj(op=b'add', path=b'', value=random_value(rng))
            else:
                c = rng.choice(conts)
                base = rfc.canonical_pointer(doc, c)
                if c.kind == 'a':
                    tok = rng.choice([b'-', b'%d' % len(c.kids), b'0', b'%d' % rng.randrange(len(c.kids) + 1)])
                else:
                    tok = rfc.esc(rng.choice(PTR_KEYS if rng.random() < 0.7 else [k.key for k in c.kids] or PTR_KEYS))
                    if rng.random() < 0.04:
                        # pointers around typical fixed buffer sizes
                        tok = b'L' * max(1, rng.choice([126, 127, 128, 254, 255, 256, 257, 258, 511, 512, 1023, 1024]) - len(base) - 1 + rng.choice([0, 0, 1, len(base) + 1]))
                op = opobj(op=b'add', path=base + b'/' + tok, value=random_value(rng))
        elif kind in ('remove', 'replace', 'test'):
            n = rng.choice(nodes)
            p = rfc.canonical_pointer(doc, n)
            if kind == 'remove':
                if n is doc:
                    continue
                op = opobj(op=b'remove', path=p)
            elif kind == 'replace':
                op = opobj(op=b'replace', path=p, value=random_value(rng))
            else:
                v = n.clone()
                if v.kind == 'o' and len(v.kids) > 1:
                    rng.shuffle(v.kids)
                op = opobj(op=b'test', path=p, value=v)
        else:
            src = rng.choice(nodes)
            fp = rfc.canonical_pointer(doc, src)
            if kind == 'move' and src is doc:
                continue
            r = rng.random()
            if r < 0.08:
                tp = b''           # to the root: legal, replaces the document
            elif r < 0.16 and kind == 'move':
                tp = fp            # onto itself
            else:
                cands = [c for c in conts if kind == 'copy' or not (c is src or is_ancestor(src, c))]
                if not cands:
                    continue
                c = rng.choice(cands)
                base = rfc.canonical_pointer(doc, c)
                if c.kind == 'a':
                    L = len(c.kids) - (1 if (kind == 'move' and src.parent is c) else 0)
                    tok = rng.choice([b'-', b'%d' % max(L, 0), b'0', b'%d' % rng.randrange(max(L, 0) + 1)])
                else:
                    tok = rfc.esc(rng.choice(PTR_KEYS))
                tp = base + b'/' + tok
            op = opobj(op=kind.encode(), frm=fp, path=tp)
        if op is None:
            continue
        one = Node('a')
        one.kids = [op.clone()]
        try:
            ok, ndoc, _run = rfc.apply_patch(doc, one)
        except rfc.Undefined:
            continue
        op.parent = patch
        patch.kids.append(op)
        doc = ndoc
        rfc.set_parent(doc)
        if not ok:
            break
    return patch


def is_ancestor(a, n):
    while n is not None:
        if n is a:
            return True
        n = n.parent
    return False


def same_kind_different(rng, n):
    """a value of the same JSON type as n that is not equal to it"""
    c = n.clone()
    c.key = None
    c.parent = None
    if n.kind == 'n':
        return Node.num(rng.choice([x for x in NUMS if x != n.dbl]))
    if n.kind in 'sw':
        return Node.string((n.sval or b'') + rng.choice([b'x', b' ', b'\x01']))
    if n.kind in 'tf':
        return Node('f' if n.kind == 't' else 't')
    if n.kind == 'a':
        if c.kids and rng.random() < 0.5:
            c.kids = c.kids[:-1]
        else:
            c.kids = c.kids + [Node('z')]
        return c
    if n.kind == 'o':
        if c.kids and rng.random() < 0.5:
            c.kids = c.kids[1:]
        else:
            x = Node('t')
            x.key = b'zz-extra-member'
            c.kids = c.kids + [x]
        return c
    return Node('t')


def faulty_op(rng, doc):
    nodes = all_nodes(doc)
    n = rng.choice(nodes)
    if rng.random() < 0.12:
        # a test that must fail although the value has the right type (and, in containers, mostly the right content)
        return opobj(op=b'test', path=rfc.canonical_pointer(doc, n), value=same_kind_different(rng, n))
    p = rfc.canonical_pointer(doc, n)
    v = random_value(rng)
    arrs = [x for x in nodes if x.kind == 'a']
    objs = [x for x in nodes if x.kind == 'o']
    choices = [
        lambda: opobj(path=p, value=v),                                   # missing op
        lambda: opobj(op=b'add', value=v),                                # missing path
        lambda: opobj(op=b'add', path=p + b'/new'),                       # missing value
        lambda: opobj(op=b'replace', path=p),
        lambda: opobj(op=b'test', path=p),
        lambda: opobj(op=b'move', path=p + b'/x'),                        # missing from
        lambda: opobj(op=b'copy', path=b'/zz'),
        lambda: opobj(op=Node.num(1.0), path=p, value=v),                 # wrong member types
        lambda: opobj(op=Node('z'), path=p, value=v),
        lambda: opobj(op=Node('o'), path=p, value=v),
        lambda: opobj(op=b'add', path=Node.num(0.0), value=v),
        lambda: opobj(op=b'add', path=Node('z'), value=v),
        lambda: opobj(op=b'add', path=Node('a'), value=v),
        lambda: opobj(op=b'move', frm=Node.num(1.0), path=b'/zz'),
        lambda: opobj(op=b'copy', frm=Node('z'), path=b'/zz'),
        lambda: opobj(op=b'copy', frm=Node('o'), path=b'/zz'),
        lambda: opobj(op=b'move', frm=Node('t'), path=b'/zz'),
        lambda: opobj(op=rng.choice([b'ADD', b'Add', b'delete', b'', b'addx', b'tes', b'mov']), path=p, value=v),
        lambda: opobj(op=b'remove', path=p + b'/nope-missing'),
        lambda: opobj(op=b'replace', path=p + b'/nope-missing', value=v),
        lambda: opobj(op=b'test', path=p + b'/nope-missing', value=v),
        lambda: opobj(op=b'test', path=p, value=Node.string(b'definitely different \x01')),
        lambda: opobj(op=b'copy', frm=p + b'/nope-missing', path=b'/zz'),
        lambda: opobj(op=b'move', frm=p + b'/nope-missing', path=b'/zz'),
        lambda: opobj(op=b'add', path=b'/nope-missing/deeper/x', value=v),
        # the same failures when the target is the whole document (path "")
        lambda: opobj(op=b'copy', frm=p + b'/nope-missing', path=b''),
        lambda: opobj(op=b'move', frm=p + b'/nope-missing', path=b''),
        lambda: opobj(op=b'copy', frm=b'/nope-missing', path=b''),
        lambda: opobj(op=b'move', frm=Node.num(1.0), path=b''),
        lambda: opobj(op=b'copy', frm=Node('z'), path=b''),
        lambda: opobj(op=b'move', path=b''),
        lambda: opobj(op=b'copy', path=b''),
        lambda: opobj(op=b'add', path=b''),
        lambda: opobj(op=b'replace', path=b''),
        lambda: opobj(op=b'test', path=b''),
        lambda: opobj(op=b'test', path=b'', value=same_kind_different(rng, doc)),
        # member names in the wrong case are not the members the RFC names
        lambda: opobj_raw([(b'OP', b'add'), (b'path', p + b'/new'), (b'value', v)]),
        lambda: opobj_raw([(b'Op', b'remove'), (b'path', p)]),
        lambda: opobj_raw([(b'op', b'add'), (b'PATH', b''), (b'value', v)]),
        lambda: opobj_raw([(b'op', b'add'), (b'Path', p), (b'value', v)]),
        lambda: opobj_raw([(b'op', b'add'), (b'path', b''), (b'VALUE', v)]),
        lambda: opobj_raw([(b'op', b'replace'), (b'path', p), (b'Value', v)]),
        lambda: opobj_raw([(b'op', b'test'), (b'path', p), (b'VALUE', n.clone())]),
        lambda: opobj_raw([(b'op', b'copy'), (b'FROM', p), (b'path', b'')]),
        lambda: opobj_raw([(b'op', b'move'), (b'From', p), (b'path', b'')]),
        lambda: opobj_raw([(b'OP', b'test'), (b'op', b'bogus'), (b'path', p), (b'value', n.clone())]),
        lambda: opobj_raw([(b'PATH', p), (b'op', b'test'), (b'path', p + b'/nope-missing'), (b'value', n.clone())]),
    ]
    if arrs:
        a = rng.choice(arrs)
        ap = rfc.canonical_pointer(doc, a)
        L = len(a.kids)
        for tok in (b'%d' % (L + 1), b'%d' % (L + 7), b'01', b'00', b'1A', b'0x1', b'-1', b'', b'a', b'1e0', b'18446744073709551616', b'18446744073709551617', b' 1'):
            choices.append(lambda tok=tok: opobj(op=b'add', path=ap + b'/' + tok, value=v))
        for tok in (b'%d' % L, b'-', b'%d' % (L + 3), b'01', b'', b'1A'):
            choices.append(lambda tok=tok: opobj(op=b'remove', path=ap + b'/' + tok))
            choices.append(lambda tok=tok: opobj(op=b'replace', path=ap + b'/' + tok, value=v))
        if L and rng.random() < 0.5:
            # indices that alias an existing element once truncated to fewer bits
            j = rng.randrange(L)
            M = rng.choice([2 ** 31, 2 ** 32, 2 ** 33, 2 ** 63, 2 ** 64 - 2 ** 32, 3 * 2 ** 32])
            if M + j < 2 ** 64:
                wp = ap + b'/%d' % (M + j)
                choices += [lambda: opobj(op=b'test', path=wp, value=a.kids[j].clone()), lambda: opobj(op=b'copy', frm=wp, path=b'/zz'),
                            lambda: opobj(op=b'move', frm=wp, path=b'/zz'), lambda: opobj(op=b'remove', path=wp), lambda: opobj(op=b'replace', path=wp, value=v),
                            lambda: opobj(op=b'add', path=wp + b'/new', value=v), lambda: opobj(op=b'add', path=wp + b'/0', value=v), lambda: opobj(op=b'test', path=wp + b'/0', value=v)] * 2
    if objs:
        o = rng.choice(objs)
        obp = rfc.canonical_pointer(doc, o)
        if o.kids:
            k = rng.choice(o.kids)
            if k.key.swapcase() != k.key and rfc.member(o, k.key.swapcase()) is None:
                kp = obp + b'/' + rfc.esc(k.key.swapcase())
                choices += [lambda: opobj(op=b'remove', path=kp), lambda: opobj(op=b'replace', path=kp, value=v),
                            lambda: opobj(op=b'test', path=kp, value=k.clone()), lambda: opobj(op=b'copy', frm=kp, path=b'/zz'), lambda: opobj(op=b'move', frm=kp, path=b'/zz')]
    conts = [x for x in nodes if x.kind in 'ao' and x.kids]
    if conts:
        c = rng.choice(conts)
        cp = rfc.canonical_pointer(doc, c)
        ch = rng.choice(c.kids)
        chp = rfc.canonical_pointer(doc, ch)
        if c is not doc:
            choices += [lambda: opobj(op=b'move', frm=cp, path=chp + b'/x'), lambda: opobj(op=b'move', frm=cp, path=chp), lambda: opobj(op=b'move', frm=cp, path=cp + b'/0')]
            choices += [lambda: opobj(op=b'move', frm=cp, path=cp + b'/x')] * 3
    return rng.choice(choices)()


def arbitrary_patch(rng):
    r = rng.random()
    if r < 0.3:
        return gen_doc(rng, depth=1, maxdepth=3)
    a = Node('a')
    for _ in range(rng.randrange(0, 4)):
        r = rng.random()
        if r < 0.3:
            a.kids.append(gen_doc(rng, depth=2, maxdepth=3))
        else:
            o = Node('o')
            for k in rng.sample([b'op', b'path', b'from', b'value', b'OP', b'Path', b'extra'], rng.randrange(0, 5)):
                v = rng.choice([Node.string(rng.choice([b'add', b'remove', b'replace', b'move', b'copy', b'test', b'', b'/', b'/a', b'/0', b'a', b'/-', b'/~', b'~1'])),
                                Node.num(1.0), Node('z'), Node('t'), Node('a'), Node('o')])
                v = v.clone()
                v.key = k
                o.kids.append(v)
            a.kids.append(o)
    return a


def case_c16(rng, cid):
    doc = gen_doc(rng, maxdepth=rng.choice([2, 3, 4]))
    doc0 = doc.clone()
    r = rng.random()
    if r < 0.55:
        work = doc.clone()
        rfc.set_parent(work)
        patch = add_decoys(rng, gen_valid_ops(rng, work, rng.choice([1, 1, 2, 3, 5])))
        cls = 'valid-sequence'
    elif r < 0.85:
        work = doc.clone()
        rfc.set_parent(work)
        patch = gen_valid_ops(rng, work, rng.choice([0, 1, 2]))
        rfc.set_parent(work)
        f = faulty_op(rng, work)
        f.parent = patch
        patch.kids.append(f)
        if rng.random() < 0.3:
            extra = opobj(op=b'add', path=b'/after-fault', value=Node('t'))
            patch.kids.append(extra)
        cls = 'single-fault'
    else:
        patch = arbitrary_patch(rng)
        cls = 'arbitrary-value'
    model = doc0.clone()
    rfc.set_parent(model)
    try:
        ok, res, run = rfc.apply_patch(model, patch)
        claim = not run.bad_syntax
    except rfc.Undefined:
        ok, res, run, claim = None, None, None, False
    if rng.random() < 0.45:
        rfc.set_parent(doc0)
        sprinkle_flags(rng, doc0, p=rng.choice([0.25, 0.6]))
    ptn = to_tn(patch)
    if rng.random() < 0.3:
        fp = patch.clone()
        rfc.set_parent(fp)
        ptn = to_tn(sprinkle_flags(rng, fp))
    ops = ['build 1 ' + to_tn(doc0), 'build 2 ' + ptn, 'chk 2', 'patch 1 2 1', 'chk 1', 'tn 1', 'chk 2', 'print 1 0', 'del 1', 'del 2']
    return (cid, 'default' if cid % 2 else 'custom', ops), (doc0, patch, ok, res, claim, cls, run)


def judge_c16(prop, cl, ex, out, wit, first):
    doc0, patch, ok, res, claim, cls, run = ex
    out.evals += 1
    if first:
        out.seen(to_tn(doc0), to_tn(patch))
        if patch.kind == 'a' and patch.kids:
            out.count('nontrivial')
        out.count('class:' + cls)
        out.count('claim:%s' % ('none' if not claim else 'success' if ok else 'failure'))
        if run:
            for k in run.kinds:
                out.count('op:' + k)
    st = cl.ops.get(3)
    if not st:
        return
    status = int(st[0])
    chk1 = cl.ops.get(4)
    # safety for every patch value: the document must remain a well-formed tree
    removed_root = chk1 == ['chk', 'bad'] and any(rfc._get_str(o, b'op') == b'remove' and rfc._get_str(o, b'path') == b'' for o in (patch.kids or []) if o.kind == 'o')
    if cl.ops.get(6) != cl.ops.get(2) and not any(rfc._get_str(o, b'op') == b'test' for o in (patch.kids or []) if o.kind == 'o'):
        out.vios.append(Violation(prop, 'C16/patch-document-modified', 'the patch document changed during application', wit(cl, 6)))
    if cl.end and cl.end.get('live') != '0':
        out.vios.append(Violation(prop, 'C16/leak', '%s blocks live after deleting document and patch (class %s)' % (cl.end['live'], cls), wit(cl, 3)))
    if not claim:
        return
    if (status == 0) != ok:
        last = run.kinds[-1] if run.kinds else 'none'
        key = 'C16/status/%s/%s' % ('accepted-invalid' if status == 0 else 'rejected-valid', classify_patch(patch, doc0, ok))
        out.vios.append(Violation(prop, key, 'status %d but RFC evaluation %s; doc=%s patch=%s' % (status, 'succeeds' if ok else 'fails', to_tn(doc0)[:300], to_tn(patch)[:500]), wit(cl, 3)))
        return
    if ok:
        t = cl.ops.get(5)
        if not t or t[0] != 'tn':
            return
        got = from_tn(t[1])
        if rfc.norm_tn(got) != rfc.norm_tn(res):
            key = 'C16/result/%s' % classify_patch(patch, doc0, ok)
            out.vios.append(Violation(prop, key, 'result differs: library %s, RFC %s; doc=%s patch=%s' % (rfc.norm_tn(got)[:300], rfc.norm_tn(res)[:300], to_tn(doc0)[:300], to_tn(patch)[:500]), wit(cl, 3)))
    if first and cl.id % 97 == 5:
        out.sample({'document': to_tn(doc0)[:160], 'patch': to_tn(patch)[:240], 'status': status, 'rfc_ok': ok, 'class': cls})


def classify_patch(patch, doc, ok):
    """narrow class for violation keys: the features of the operations the reference evaluator
    went through (all of them on success, up to and including the failing one otherwise)"""
    work = doc.clone()
    rfc.set_parent(work)
    if patch.kind != 'a':
        return 'patch-not-array'
    tags = set()
    names = []
    for o in patch.kids:
        one = Node('a')
        one.kids = [o]
        if o.kind != 'o':
            tags.add('element-not-object')
        else:
            name = rfc._get_str(o, b'op') or b'?'
            path = rfc._get_str(o, b'path')
            frm = rfc._get_str(o, b'from')
            nm = name.decode('latin-1')[:8]
            if nm not in names:
                names.append(nm)
            if path == b'' and name in (b'move', b'copy'):
                tags.add(nm + '-to-root')
            if frm == b'' and name in (b'move', b'copy'):
                tags.add(nm + '-from-root')
            for ptr in (path, frm):
                if ptr is None:
                    continue
                last = ptr.rsplit(b'/', 1)[-1]
                if b'~' in last:
                    tags.add('escape-in-last-token')
                elif b'~' in ptr:
                    tags.add('escape-in-inner-token')
                if ptr.endswith(b'/'):
                    tags.add('empty-last-token')
                if last[:1].isdigit() and not last.isdigit():
                    tags.add('index-trailing-nondigit')
                if len(last) > 18 and last.isdigit():
                    tags.add('index-overflow')
            if frm is not None and path is not None and name == b'move' and (path.startswith(frm + b'/')):
                tags.add('move-into-own-child')
            fm = rfc.member(o, b'from')
            if fm is not None and fm.kind != 's':
                tags.add('from-not-string')
        try:
            k, work, run = rfc.apply_patch(work, one)
        except rfc.Undefined:
            return 'undefined'
        rfc.set_parent(work)
        if not k:
            break
    return '+'.join(sorted(tags)) or ('ops:' + ','.join(sorted(names)))


# ---------------------------------------------------------------------------------------------
# C17 / C18

def mutate_doc(rng, doc, nulls=True):
    d = doc.clone()
    rfc.set_parent(d)
    for _ in range(rng.choice([0, 1, 1, 2, 3, 5])):
        nodes = all_nodes(d)
        n = rng.choice(nodes)
        r = rng.random()
        if n.kind == 'n' and rng.random() < 0.5:
            # a number changes into another number, in place
            nn = Node.num(rng.choice([x for x in NUMS if x != n.dbl]))
            n.bits, n.ival = nn.bits, nn.ival
        elif r < 0.25 and n.kind == 'o':
            ks = [k for k in PTR_KEYS if rfc.member(n, k) is None]
            if ks:
                c = gen_doc(rng, depth=2, maxdepth=4, nulls=nulls)
                c.key = rng.choice(ks)
                c.parent = n
                n.kids.insert(rng.randrange(len(n.kids) + 1), c)
        elif r < 0.4 and n.kind in 'ao' and n.kids:
            if n.kind == 'a' and rng.random() < 0.6:
                del n.kids[-1]
            else:
                del n.kids[rng.randrange(len(n.kids))]
        elif r < 0.5 and n.kind == 'a':
            c = gen_doc(rng, depth=2, maxdepth=4, nulls=nulls)
            c.parent = n
            n.kids.append(c)
        elif r < 0.6 and n.kind == 'o' and len(n.kids) > 1:
            rng.shuffle(n.kids)
        elif r < 0.7 and n.kind == 'o' and n.kids:
            k = rng.choice(n.kids)
            nk = k.key.swapcase()
            if nk != k.key and rfc.member(n, nk) is None:
                c = gen_doc(rng, depth=2, maxdepth=3, nulls=nulls)
                c.key = nk
                c.parent = n
                n.kids.append(c)
        elif n is not d:
            par = n.parent
            c = gen_doc(rng, depth=2, maxdepth=4, nulls=nulls)
            c.key = n.key
            c.parent = par
            par.kids[par.kids.index(n)] = c
        else:
            if rng.random() < 0.3:
                d = gen_doc(rng, depth=1, maxdepth=3, nulls=nulls)
                rfc.set_parent(d)
    return d


def continued_edits(root_slot, model, tmp, label):
    """append to the root and to nested objects after a utility call that sorts internally; the
    dump must show the new member last.  -> ops, list of (index of tn op, description)"""
    ops = []
    checks = []
    objs = [n for n in all_nodes(model) if n.kind == 'o'][:3]
    for j, o in enumerate(objs):
        ops += nav_ops(tmp, root_slot, model, o)
        ops += ['cnum %d %016x' % (tmp + 1, d2b(4242.0 + j)), 'addo %d %s %d' % (tmp, hx(b'zz-appended-%d' % j), tmp + 1)]
        checks.append((len(ops) - 1, 'append'))
    ops += ['chk %d' % root_slot, 'tn %d' % root_slot]
    return ops, checks


def case_c17(rng, cid):
    frm = gen_doc(rng, maxdepth=rng.choice([2, 3, 4]))
    to = mutate_doc(rng, frm) if rng.random() < 0.85 else gen_doc(rng, maxdepth=3)
    if rng.random() < 0.08:
        to = frm.clone()
        for n in all_nodes(to):
            if n.kind == 'o' and len(n.kids) > 1:
                rng.shuffle(n.kids)
    if rng.random() < 0.4:
        rfc.set_parent(frm)
        sprinkle_flags(rng, frm)
    if rng.random() < 0.3:
        rfc.set_parent(to)
        sprinkle_flags(rng, to)
    ops = ['build 1 ' + to_tn(frm), 'build 2 ' + to_tn(to), 'genp 3 1 2 1', 'tn 3', 'chk 1', 'tn 1', 'chk 2', 'tn 2', 'build 4 ' + to_tn(frm), 'patch 4 3 1', 'chk 4', 'tn 4']
    marks = {'patch': 3, 'from': 5, 'to': 7, 'status': 9, 'applied': 11}
    return (cid, 'default' if cid % 2 else 'custom', ops), (frm, to, marks)


def sorted_like(model):
    """what the document looks like after the generator's internal sort: we do not predict it; the
    continued edits navigate by index in the *dumped* tree instead"""
    return model


def judge_c17(prop, cl, ex, out, wit, first, second_pass=None):
    frm, to, marks = ex
    out.evals += 1
    equal = rfc.json_equal(frm, to)
    if first:
        out.seen(to_tn(frm), to_tn(to))
        out.count('nontrivial' if not equal else 'equal-pairs')
        out.count('pairs')
    t = cl.ops.get(marks['patch'])
    if not t or t[0] != 'tn' or t[1] == '-':
        out.vios.append(Violation(prop, 'C17/no-patch', 'GeneratePatchesCaseSensitive returned NULL', wit(cl, 2)))
        return
    patch = from_tn(t[1])
    bad = wellformed_patch(patch)
    if bad:
        out.vios.append(Violation(prop, 'C17/patch-malformed', '%s: %s' % (bad, t[1][:400]), wit(cl, 2)))
        return
    if first:
        for o in patch.kids:
            out.count('genop:' + rfc._get_str(o, b'op').decode())
    if equal != (len(patch.kids) == 0):
        out.vios.append(Violation(prop, 'C17/emptiness/' + ('nonempty-for-equal' if equal else 'empty-for-different'), 'from=%s to=%s patch=%s' % (to_tn(frm)[:300], to_tn(to)[:300], t[1][:300]), wit(cl, 2)))
        return
    # inputs keep their value
    for name, model in (('from', frm), ('to', to)):
        d = cl.ops.get(marks[name])
        if d and d[0] == 'tn' and rfc.norm_tn(from_tn(d[1])) != rfc.norm_tn(model):
            out.vios.append(Violation(prop, 'C17/input-value-changed/' + name, '%s was %s, is now %s' % (name, to_tn(model)[:300], d[1][:300]), wit(cl, marks[name])))
            return
    # reference evaluator applies the generated patch
    work = frm.clone()
    rfc.set_parent(work)
    try:
        ok, res, run = rfc.apply_patch(work, patch)
    except rfc.Undefined:
        ok, res = False, None
    cls = gen_class(frm, to)
    if not ok or not rfc.json_equal(res, to):
        out.vios.append(Violation(prop, 'C17/reference-apply/%s/%s' % ('fails' if not ok else 'wrong-result', cls), 'from=%s to=%s patch=%s' % (to_tn(frm)[:300], to_tn(to)[:300], t[1][:500]), wit(cl, 2)))
        return
    st = cl.ops.get(marks['status'])
    ap = cl.ops.get(marks['applied'])
    if st and st != ['0']:
        out.vios.append(Violation(prop, 'C17/library-apply/fails/' + cls, 'status %s applying the generated patch %s to %s' % (st[0], t[1][:400], to_tn(frm)[:300]), wit(cl, marks['status'])))
        return
    if ap and ap[0] == 'tn' and rfc.norm_tn(from_tn(ap[1])) != rfc.norm_tn(to):
        out.vios.append(Violation(prop, 'C17/library-apply/wrong-result/' + cls, 'got %s, target %s, patch %s' % (ap[1][:300], to_tn(to)[:300], t[1][:400]), wit(cl, marks['applied'])))
        return
    if first and cl.id % 89 == 5:
        out.sample({'from': to_tn(frm)[:160], 'to': to_tn(to)[:160], 'generated_patch': t[1][:300]})


def gen_class(frm, to):
    tags = []
    ks = [n.key for n in all_nodes(frm) + all_nodes(to) if n.key is not None]
    if any(b'/' in k for k in ks):
        tags.append('slash-key')
    if any(b'~' in k for k in ks):
        tags.append('tilde-key')
    return '+'.join(tags) or 'plain-keys'


def wellformed_patch(p):
    if p.kind != 'a':
        return 'not an array'
    for o in p.kids:
        if o.kind != 'o':
            return 'operation is not an object'
        name = rfc._get_str(o, b'op')
        path = rfc._get_str(o, b'path')
        if name not in (b'add', b'remove', b'replace', b'move', b'copy', b'test'):
            return 'bad op %r' % name
        if path is None or not rfc.ptr_valid(path):
            return 'bad path %r' % path
        if name in (b'add', b'replace', b'test') and rfc.member(o, b'value') is None:
            return 'value missing'
        if name in (b'move', b'copy'):
            f = rfc._get_str(o, b'from')
            if f is None or not rfc.ptr_valid(f):
                return 'bad from'
    return None


def case_c18(rng, cid):
    if cid % 2 == 0:
        # application
        target = gen_doc(rng, maxdepth=rng.choice([1, 2, 3, 4]))
        r = rng.random()
        if r < 0.7:
            patch = mutate_doc(rng, target)
            # sprinkle null members (deletions), including for keys that differ only in case
            for n in all_nodes(patch):
                if n.kind == 'o' and rng.random() < 0.5:
                    for k in list(n.kids):
                        if rng.random() < 0.25:
                            z = Node('z', key=k.key)
                            z.parent = n
                            n.kids[n.kids.index(k)] = z
                    if rng.random() < 0.3:
                        ks = [k for k in PTR_KEYS if rfc.member(n, k) is None]
                        if ks:
                            z = Node('z', key=rng.choice(ks))
                            z.parent = n
                            n.kids.append(z)
        else:
            patch = gen_doc(rng, maxdepth=3)
        tm = target.clone()
        rfc.set_parent(tm)
        res = rfc.merge_patch(tm, patch)
        if rng.random() < 0.5:
            rfc.set_parent(patch)
            sprinkle_flags(rng, patch)
        if rng.random() < 0.3:
            rfc.set_parent(target)
            sprinkle_flags(rng, target)
        ops = ['build 1 ' + to_tn(target), 'build 2 ' + to_tn(patch), 'chk 2', 'merge 3 1 2 1', 'chk 3', 'tn 3', 'chk 2', 'print 3 0', 'del 3', 'del 2']
        return (cid, 'default' if cid % 4 else 'custom', ops), ('apply', target, patch, res)
    frm = gen_doc(rng, maxdepth=rng.choice([1, 2, 3, 4]), nulls=False)
    to = mutate_doc(rng, frm, nulls=False) if rng.random() < 0.85 else gen_doc(rng, maxdepth=3, nulls=False)
    if rfc.has_null_member(to):
        to = frm.clone()
    if rng.random() < 0.4:
        rfc.set_parent(frm)
        sprinkle_flags(rng, frm)
    if rng.random() < 0.3:
        rfc.set_parent(to)
        sprinkle_flags(rng, to)
    ops = ['build 1 ' + to_tn(frm), 'build 2 ' + to_tn(to), 'genm 3 1 2 1', 'tn 3', 'chk 1', 'tn 1', 'chk 2', 'tn 2', 'build 4 ' + to_tn(frm), 'merge 5 4 3 1', 'chk 5', 'tn 5']
    # continued use of the inputs after the (sorting) generator
    ops += ['cnum 6 %016x' % d2b(7.0), 'addo 1 %s 6' % hx(b'zz-appended') if frm.kind == 'o' else 'del 6', 'chk 1', 'tn 1',
            'cnum 7 %016x' % d2b(8.0), 'addo 2 %s 7' % hx(b'zz-appended') if to.kind == 'o' else 'del 7', 'chk 2', 'tn 2',
            'del 1', 'del 2', 'del 3', 'del 5']
    return (cid, 'default' if cid % 4 != 1 else 'custom', ops), ('generate', frm, to, None)


def judge_c18(prop, cl, ex, out, wit, first):
    kind = ex[0]
    out.evals += 1
    if kind == 'apply':
        _, target, patch, res = ex
        if first:
            out.seen('a', to_tn(target), to_tn(patch))
            out.count('nontrivial' if patch.kind == 'o' and patch.kids else 'scalar-patch')
            out.count('apply')
        t = cl.ops.get(5)
        if not t or t[0] != 'tn' or t[1] == '-':
            out.vios.append(Violation(prop, 'C18/apply/null-result', 'MergePatchCaseSensitive returned NULL for target=%s patch=%s' % (to_tn(target)[:200], to_tn(patch)[:200]), wit(cl, 3)))
            return
        got = from_tn(t[1])
        if rfc.norm_tn(got) != rfc.norm_tn(res):
            cls = 'case-pair' if case_pairs(target, patch) else 'plain'
            out.vios.append(Violation(prop, 'C18/apply/wrong-result/' + cls, 'target=%s patch=%s library=%s RFC=%s' % (to_tn(target)[:250], to_tn(patch)[:250], rfc.norm_tn(got)[:250], rfc.norm_tn(res)[:250]), wit(cl, 3)))
        if cl.ops.get(6) != cl.ops.get(2):
            out.vios.append(Violation(prop, 'C18/apply/patch-modified', 'the patch document changed', wit(cl, 6)))
        if cl.end and cl.end.get('live') != '0':
            out.vios.append(Violation(prop, 'C18/apply/leak', '%s blocks live at the end' % cl.end['live'], wit(cl, 3)))
        if first and cl.id % 97 == 4:
            out.sample({'target': to_tn(target)[:140], 'patch': to_tn(patch)[:140], 'result': t[1][:140]})
        return
    _, frm, to, _ = ex
    equal = rfc.json_equal(frm, to)
    if first:
        out.seen('g', to_tn(frm), to_tn(to))
        out.count('nontrivial' if not equal else 'equal-pairs')
        out.count('generate')
    t = cl.ops.get(3)
    cls = 'case-pair' if case_pairs(frm, to) else 'plain'
    if not t or t[0] != 'tn':
        return
    for name, model, at in (('from', frm, 5), ('to', to, 7)):
        d = cl.ops.get(at)
        if d and d[0] == 'tn' and rfc.norm_tn(from_tn(d[1])) != rfc.norm_tn(model):
            out.vios.append(Violation(prop, 'C18/generate/input-value-changed/' + name, '%s was %s, now %s' % (name, to_tn(model)[:250], d[1][:250]), wit(cl, at)))
            return
    if t[1] == '-':
        if not equal:
            out.vios.append(Violation(prop, 'C18/generate/no-patch-for-different/' + cls, 'from=%s to=%s' % (to_tn(frm)[:300], to_tn(to)[:300]), wit(cl, 2)))
        patch = None
    else:
        patch = from_tn(t[1])
    work = frm.clone()
    rfc.set_parent(work)
    res = rfc.merge_patch(work, patch) if patch is not None else work
    if not rfc.json_equal(res, to):
        out.vios.append(Violation(prop, 'C18/generate/reference-apply-wrong/' + cls, 'from=%s to=%s patch=%s' % (to_tn(frm)[:250], to_tn(to)[:250], t[1][:300]), wit(cl, 2)))
        return
    ap = cl.ops.get(11)
    if patch is not None and ap and ap[0] == 'tn' and (ap[1] == '-' or rfc.norm_tn(from_tn(ap[1])) != rfc.norm_tn(to)):
        out.vios.append(Violation(prop, 'C18/generate/library-apply-wrong/' + cls, 'from=%s to=%s patch=%s got=%s' % (to_tn(frm)[:250], to_tn(to)[:250], t[1][:250], ap[1][:250]), wit(cl, 9)))
        return
    # continued use: appended members must be there, last
    for model, at, val in ((frm, 15, 7.0), (to, 19, 8.0)):
        if model.kind != 'o':
            continue
        d = cl.ops.get(at)
        if not d or d[0] != 'tn':
            continue
        g = from_tn(d[1])
        last = g.kids[-1] if g.kids else None
        if len(g.kids) != len(model.kids) + 1 or last is None or last.key != b'zz-appended':
            out.vios.append(Violation(prop, 'C18/generate/input-unusable-afterwards', 'appending to an input after generation: %d members before, dump now %s' % (len(model.kids), d[1][:300]), wit(cl, at - 2)))
            return
    if cl.end and cl.end.get('live') != '0':
        out.vios.append(Violation(prop, 'C18/generate/leak', '%s blocks live at the end' % cl.end['live'], wit(cl, 2)))
    if first and cl.id % 97 == 5:
        out.sample({'from': to_tn(frm)[:140], 'to': to_tn(to)[:140], 'generated_merge_patch': t[1][:200]})


def case_pairs(a, b):
    ks = {n.key for n in all_nodes(a) + all_nodes(b) if n.key is not None}
    low = {}
    for k in ks:
        low.setdefault(k.lower(), set()).add(k)
    return any(len(v) > 1 for v in low.values())


# ---------------------------------------------------------------------------------------------

def c17_followup(ex, cl):
    """second pass for C17: continued edits on the inputs need the order the generator left them in,
    which is only known from the dump -> ops appended to the same case are index based and safe"""
    return None


def run_shard(shard_prop, bins, workdir, tier):
    prop, (kind, seed, count) = shard_prop
    out = ShardOut()
    rng = random.Random('%s-%s' % (prop, seed))
    cases = []
    exs = {}
    if kind == 'deep':
        dc = deep_cases(prop)
        cases = [(i, 'default' if i % 2 else 'custom', d[0]) for i, d in enumerate(dc)]
        for fl, binary in bins.items():
            by_id = {c[0]: (c[1], c[2]) for c in cases}
            wit = case_witness(by_id, fl)
            logs = run_batch(binary, fl, cases, workdir, '%s-deep' % prop)
            for i, (ops, exp, nonzero, label) in enumerate(dc):
                cl = logs[i]
                out.vios += mechanical_violations(prop, cl, wit)
                out.evals += 1
                out.seen('deep', label)
                out.count('nontrivial')
                out.count('deep-cases')
                if cl.died:
                    continue
                for idx, e in exp.items():
                    if cl.ops.get(idx) != e:
                        out.vios.append(Violation(prop, '%s/deep/%s' % (prop, ops[idx].split()[0]), '%s: op %d `%s` answered %s, expected %s' % (label, idx, ops[idx][:60], cl.ops.get(idx), e), wit(cl, idx)))
                        break
                else:
                    if nonzero is not None and cl.ops.get(nonzero) in (['0'], None):
                        out.vios.append(Violation(prop, '%s/deep/empty-patch-for-different' % prop, '%s: generated patch is empty' % label, wit(cl, nonzero)))
                if cl.end and cl.end.get('live') != '0':
                    out.vios.append(Violation(prop, '%s/deep/leak' % prop, '%s blocks live at the end' % cl.end['live'], wit(cl, 0)))
        return out
    maker = {'C15': case_c15, 'C16': case_c16, 'C17': case_c17, 'C18': case_c18}[prop]
    for i in range(count):
        c, ex = maker(rng, i)
        if prop == 'C17':
            frm, to, marks = ex
            ops = c[2]
            # continued use of both inputs: append to the root objects, dump, then clean up
            ops += ['cnum 6 %016x' % d2b(7.0), 'addo 1 %s 6' % hx(b'zz-appended') if frm.kind == 'o' else 'del 6', 'chk 1', 'tn 1',
                    'cnum 7 %016x' % d2b(8.0), 'addo 2 %s 7' % hx(b'zz-appended') if to.kind == 'o' else 'del 7', 'chk 2', 'tn 2',
                    'print 1 1', 'print 2 0', 'del 1', 'del 2', 'del 3', 'del 4']
            marks['after_from'] = 15
            marks['after_to'] = 19
        cases.append(c)
        exs[i] = ex
    for fl, binary in bins.items():
        by_id = {c[0]: (c[1], c[2]) for c in cases}
        wit = case_witness(by_id, fl)
        logs = run_batch(binary, fl, cases, workdir, '%s-%s' % (prop, seed))
        first = fl == sorted(bins)[0]
        for cid, ex in exs.items():
            cl = logs[cid]
            mv = mechanical_violations(prop, cl, wit)
            if prop == 'C16':
                # 'remove' of the whole document leaves an invalid root by design of the library; the
                # property leaves that case open
                patch = ex[1]
                if any(o.kind == 'o' and rfc._get_str(o, b'op') == b'remove' and rfc._get_str(o, b'path') == b'' for o in (patch.kids or [])):
                    mv = [v for v in mv if '/wf/type' not in v.key]
            out.vios += mv
            if cl.died:
                continue
            if prop == 'C15':
                judge_c15(prop, cl, ex, out, wit, first)
            elif prop == 'C16':
                judge_c16(prop, cl, ex, out, wit, first)
            elif prop == 'C17':
                judge_c17(prop, cl, ex, out, wit, first)
                frm, to, marks = ex
                for model, at in ((frm, marks['after_from']), (to, marks['after_to'])):
                    if model.kind != 'o':
                        continue
                    d = cl.ops.get(at)
                    if not d or d[0] != 'tn':
                        continue
                    g = from_tn(d[1])
                    last = g.kids[-1] if g.kids else None
                    if len(g.kids) != len(model.kids) + 1 or last is None or last.key != b'zz-appended':
                        out.vios.append(Violation(prop, 'C17/input-unusable-afterwards', 'appending to an input after generation: %d members before, dump now %s' % (len(model.kids), d[1][:300]), wit(cl, at - 2)))
                        break
                if cl.end and cl.end.get('live') != '0':
                    out.vios.append(Violation(prop, 'C17/leak', '%s blocks live at the end' % cl.end['live'], wit(cl, 2)))
            else:
                judge_c18(prop, cl, ex, out, wit, first)
    return out


def finish(prop, tier, results):
    tot = ShardOut()
    for r in results:
        tot.merge(r)
    cov = {
        'evaluations': tot.evals,
        'distinct_nontrivial': min(len(tot.distinct), tot.stats.get('nontrivial', 0)),
        'rule': {
            'C15': 'documents with distinct keys from {"", a, A, /, ~, ~0, ~1, a/b, m~n, 0, 1, 01, -, space, 1A, ...}, arrays of 0..30 elements; pointers: canonical pointer of every node, single edits of it, appended tokens (empty, 0, -, ~, ~2, len, len+1, leading zeros, 1A, 20-25 digit indices), random strings; construction for up to 25 nodes per document and a foreign node; evaluations = pointer lookups + constructions',
            'C16': 'operation sequences generated by simulating RFC 6902 on the current document (all six ops, escapes in last/inner tokens, -, index == length, moves within arrays, copy into own subtree, root add/replace/test, move/copy to root), single-fault versions (25+ fault kinds), arbitrary JSON values as patch; status and result compared with the reference evaluator when all pointers are valid RFC 6901 text; distinct = distinct (document, patch) with a non-empty array patch',
            'C17': '(from, to) with to = 0-5 mutations of from (member add/remove/reorder/case-variant, tail removal/append in arrays, value replacement) or unrelated; patch dumped, validated, applied by the reference evaluator and by the library to a fresh copy; inputs dumped, compared, then appended to; distinct = distinct unequal pairs',
            'C18': 'application: (target, patch) with null members at several depths, case-variant keys, all type combinations; generation: (from, to) without null members, applied back by the reference and by the library; inputs dumped, compared, appended to; distinct = distinct pairs with an object patch / unequal documents',
        }[prop],
        'samples': tot.samples[:8],
    }
    for pre in ('class:', 'claim:', 'op:', 'genop:', 'resolve:', 'construct', 'apply', 'generate', 'pairs', 'equal-pairs'):
        d = {k: v for k, v in sorted(tot.stats.items()) if k.startswith(pre)}
        if d:
            cov.setdefault('observed', {}).update(d)
    inc = None
    if tot.evals == 0:
        inc = 'nothing was evaluated'
    if prop == 'C16':
        ops = {k[3:] for k in tot.stats if k.startswith('op:')}
        if not {'add', 'remove', 'replace', 'move', 'copy', 'test'} <= ops:
            inc = 'coverage floor: operations seen %s' % sorted(ops)
    return tot.vios, cov, inc
