"""C12 - cJSON_Compare decides semantic equality.  R5 (own equality relation) on the model trees;
symmetry and purity are checked in-process by the driver's `cmpx`."""
import math
from fractions import Fraction
import random
import struct
from . import treegen
from .runner import ShardOut, Violation, run_batch, mechanical_violations, case_witness, SEED
from .tn import Node, to_tn, d2b, b2d, hx

EPS = 2.0 ** -52


def plan(prop, tier):
    q = tier == 'quick'
    n = 16 if q else 64
    per = 190 if q else 5000
    return ['asan', 'plain', 'efence'], [('cmp', SEED * 1000 + i, per) for i in range(n)] + [('deep', 0, 0)]


# magnitudes at which a relative tolerance underflows or an absolute one swallows everything
TINY = [5e-324, 1e-323, 1e-310, 2e-310, 3e-320, 2.2250738585072014e-308, 1.1125369292536007e-308, 2.5e-300, 1e-200, 6.626e-34, 1.054e-34, 1e-20, 3e-20, 1e-17, 2e-16]


class NoClaim(Exception):
    pass


def r5(a, b, cs):
    """the equality relation of C12 on model trees; raises NoClaim where the statement makes none"""
    if a.kind != b.kind:
        return False
    k = a.kind
    if k in 'tfz':
        return True
    if k == 'n':
        x, y = a.dbl, b.dbl
        fx, fy = math.isfinite(x), math.isfinite(y)
        if not fx and not fy:
            raise NoClaim()
        if fx != fy:
            return False
        if x == y:
            return True
        m = max(abs(x), abs(y))
        if m < 1e-290:
            # the tolerance underflows: the boundary itself is not claimed, but values further apart
            # than four times the tolerance (in exact arithmetic) are unequal whatever the rounding
            if abs(Fraction(x) - Fraction(y)) > 4 * Fraction(m) * Fraction(EPS):
                return False
            raise NoClaim()
        return abs(x - y) <= m * EPS
    if k in 'sw':
        return a.sval == b.sval
    if k == 'a':
        if len(a.kids) != len(b.kids):
            return False
        return all(r5(x, y, cs) for x, y in zip(a.kids, b.kids))
    if k == 'o':
        f = (lambda s: s) if cs else (lambda s: s.lower())
        da = {f(c.key): c for c in a.kids}
        db = {f(c.key): c for c in b.kids}
        if len(da) != len(a.kids) or len(db) != len(b.kids):
            raise NoClaim()       # keys not distinct under this comparison
        if set(da) != set(db):
            return False
        return all(r5(da[q], db[q], cs) for q in da)
    raise NoClaim()


def all_nodes(t):
    out = []
    st = [t]
    while st:
        m = st.pop()
        out.append(m)
        if m.kids:
            st.extend(m.kids)
    return out


def mutants(rng, a, cs=1):
    """-> list of (label, tree)"""
    M = [('identical', a.clone())]
    nodes = all_nodes(a)

    def with_edit(label, fn):
        c = a.clone()
        ns = all_nodes(c)
        try:
            if fn(ns) is not False:
                M.append((label, c))
        except (IndexError, ValueError):
            pass

    def pick(ns, pred):
        c = [m for m in ns if pred(m)]
        if not c:
            raise IndexError
        return rng.choice(c)

    def num_edit(label, f):
        def ed(ns):
            m = pick(ns, lambda q: q.kind == 'n')
            x = f(m.dbl, m.bits)
            if isinstance(x, int):
                nn = Node.numbits(x)
            else:
                nn = Node.num(x)
            m.bits, m.ival = nn.bits, nn.ival
        with_edit(label, ed)

    for _ in range(2):
        num_edit('num+1ulp', lambda x, b: b + 1 if x == x and not math.isinf(x) else b)
        num_edit('num-1ulp', lambda x, b: b - 1 if b & 0x7fffffffffffffff else b)
        num_edit('num+2ulp', lambda x, b: b + 2)
        num_edit('num+3ulp', lambda x, b: b + 3)
        num_edit('num*(1+2^-52)', lambda x, b: x * (1 + EPS))
        num_edit('num*(1+2^-51)', lambda x, b: x * (1 + 2 * EPS))
        num_edit('num*(1-2^-52)', lambda x, b: x * (1 - EPS))
        num_edit('num-sign', lambda x, b: -x)
        num_edit('num->inf', lambda x, b: math.inf)
        num_edit('num->-inf', lambda x, b: -math.inf)
        num_edit('num->nan', lambda x, b: math.nan)
        num_edit('num+1', lambda x, b: x + 1.0)
        num_edit('num->max', lambda x, b: 1.7976931348623157e308)
        num_edit('num*2', lambda x, b: x * 2.0)
        num_edit('num/2', lambda x, b: x / 2.0)
        num_edit('num*3', lambda x, b: x * 3.0)
        num_edit('num->0', lambda x, b: 0.0)
        num_edit('num->tiny', lambda x, b: rng.choice(TINY))
        num_edit('num->-tiny', lambda x, b: -rng.choice(TINY))

    def type_flip(ns):
        m = pick(ns, lambda q: True)
        nk = rng.choice([k for k in 'ztfnsao' if k != m.kind])
        key, kc = m.key, m.kconst
        par = m.parent
        nn = {'z': Node('z'), 't': Node('t'), 'f': Node('f'), 'n': Node.num(1.0), 's': Node.string(b'x'), 'a': Node('a'), 'o': Node('o')}[nk]
        nn.key, nn.kconst = key, kc
        if par is None:
            M.append(('type-flip-root', nn))
            return False
        par.kids[par.kids.index(m)] = nn
        nn.parent = par
    for _ in range(3):
        with_edit('type-flip', type_flip)

    def str_byte(ns):
        m = pick(ns, lambda q: q.kind == 's' and q.sval)
        i = rng.randrange(len(m.sval))
        m.sval = m.sval[:i] + bytes([(m.sval[i] % 255) + 1]) + m.sval[i + 1:]
    with_edit('string-byte', str_byte)

    def str_raw(ns):
        m = pick(ns, lambda q: q.kind in 'sw' and not q.ref)
        m.kind = 'w' if m.kind == 's' else 's'
    with_edit('string<->raw', str_raw)

    def raw_byte(ns):
        m = pick(ns, lambda q: q.kind == 'w' and q.sval)
        i = rng.randrange(len(m.sval))
        m.sval = m.sval[:i] + bytes([(m.sval[i] % 255) + 1]) + m.sval[i + 1:]
    with_edit('raw-byte', raw_byte)

    def str_len(ns):
        m = pick(ns, lambda q: q.kind == 's')
        m.sval = m.sval + b'x'
    with_edit('string-longer', str_len)

    def str_case(ns):
        m = pick(ns, lambda q: q.kind == 's' and q.sval.swapcase() != q.sval)
        m.sval = m.sval.swapcase()
    with_edit('string-case', str_case)

    def key_byte(ns):
        m = pick(ns, lambda q: q.key is not None and q.parent is not None and q.parent.kind == 'o')
        nk = m.key + b'#'
        m.key = nk
    with_edit('key-changed', key_byte)

    def key_case(ns):
        m = pick(ns, lambda q: q.key is not None and q.parent is not None and q.parent.kind == 'o' and q.key.swapcase() != q.key)
        m.key = m.key.swapcase()
    with_edit('key-case-flip', key_case)

    def key_bit5(ns):
        # '[' vs '{', '@' vs '`', ']' vs '}' ... differ exactly like 'A' vs 'a' but are NOT case variants
        m = pick(ns, lambda q: q.key is not None and q.parent is not None and q.parent.kind == 'o')
        ks = [i for i, c in enumerate(m.key) if not (65 <= (c & ~0x20) <= 90) and 0x20 < (c ^ 0x20) < 0x7f]
        if ks:
            i = rng.choice(ks)
            nk = m.key[:i] + bytes([m.key[i] ^ 0x20]) + m.key[i + 1:]
        else:
            nk = m.key + rng.choice([b'[', b'@', b']', b'^', b'_', b'`', b'{', b'}'])
            sib = [k for k in m.parent.kids if k is not m]
            if any(k.key is not None and k.key.lower() == nk.lower() for k in sib):
                raise IndexError
            m.key = nk
            # both trees get the extended key; the mutant then differs in bit 0x20 of the new byte
            raise IndexError
        sib = [k for k in m.parent.kids if k is not m]
        if any(k.key is not None and k.key.lower() == nk.lower() for k in sib):
            raise IndexError
        m.key = nk
    for _ in range(2):
        with_edit('key-byte-xor-0x20-nonletter', key_bit5)

    def arr_insert(ns):
        m = pick(ns, lambda q: q.kind == 'a')
        n = Node('z')
        n.parent = m
        m.kids.insert(rng.randrange(len(m.kids) + 1), n)
    with_edit('element-inserted', arr_insert)

    def arr_remove(ns):
        m = pick(ns, lambda q: q.kind == 'a' and q.kids)
        del m.kids[rng.randrange(len(m.kids))]
    with_edit('element-removed', arr_remove)

    def arr_remove_last(ns):
        m = pick(ns, lambda q: q.kind == 'a' and q.kids)
        del m.kids[-1]
    with_edit('element-removed-last', arr_remove_last)

    def arr_swap(ns):
        m = pick(ns, lambda q: q.kind == 'a' and len(q.kids) >= 2)
        i = rng.randrange(len(m.kids) - 1)
        m.kids[i], m.kids[i + 1] = m.kids[i + 1], m.kids[i]
    with_edit('elements-swapped', arr_swap)

    def mem_add(ns):
        m = pick(ns, lambda q: q.kind == 'o')
        n = Node('t', key=b'zz-extra-member')
        n.parent = m
        m.kids.insert(rng.randrange(len(m.kids) + 1), n)
    with_edit('member-added', mem_add)

    def mem_add_case_variant(ns):
        # an extra member whose key differs from an existing key only by letter case (same or other value)
        k = pick(ns, lambda q: q.key is not None and q.parent is not None and q.parent.kind == 'o' and q.key.swapcase() != q.key
                 and all(c.key != q.key.swapcase() for c in q.parent.kids))
        n = k.clone() if rng.random() < 0.6 else Node('t')
        n.key, n.kconst = k.key.swapcase(), False
        n.parent = k.parent
        k.parent.kids.insert(rng.choice([0, len(k.parent.kids), rng.randrange(len(k.parent.kids) + 1)]), n)
    # only for case-sensitive runs: under case folding the two keys are the same key, and C12 (like
    # the library's documentation) speaks about objects whose keys are distinct under the comparison
    for _ in range(2 if cs else 0):
        with_edit('member-added-case-variant', mem_add_case_variant)

    def mem_remove(ns):
        m = pick(ns, lambda q: q.kind == 'o' and q.kids)
        del m.kids[rng.randrange(len(m.kids))]
    with_edit('member-removed', mem_remove)

    def mem_remove_last(ns):
        m = pick(ns, lambda q: q.kind == 'o' and q.kids)
        del m.kids[-1]
    with_edit('member-removed-last', mem_remove_last)

    def permute(ns):
        done = False
        for m in ns:
            if m.kind == 'o' and len(m.kids) >= 2:
                rng.shuffle(m.kids)
                done = True
        return done
    for _ in range(3):
        with_edit('members-permuted', permute)

    def reverse_members(ns):
        done = False
        for m in ns:
            if m.kind == 'o' and len(m.kids) >= 2:
                m.kids.reverse()
                done = True
        return done
    with_edit('members-reversed', reverse_members)

    def flags(ns):
        for m in ns:
            if m.key is not None and m.parent is not None and m.parent.kind == 'o':
                m.kconst = not m.kconst
            if m.kind == 's' or m.parent is not None:
                m.ref = not m.ref
    with_edit('ownership-flags-flipped', flags)

    def value_changed_deep(ns):
        leaves = [m for m in ns if m.kind in 'tf']
        if not leaves:
            raise IndexError
        m = rng.choice(leaves)
        m.kind = 't' if m.kind == 'f' else 'f'
    with_edit('bool-flipped', value_changed_deep)
    return M


def run_shard(shard_prop, bins, workdir, tier):
    prop, (kind, seed, count) = shard_prop
    out = ShardOut()
    rng = random.Random('C12-%s' % seed)
    cases = []
    expect = {}
    if kind == 'deep':
        # equality must not depend on how deep the values sit: trees at the parser's nesting limit
        # and (built through the API) far beyond it
        from . import jsonref
        from .runner import REPO
        lim = jsonref.nesting_limit(REPO)
        cid = 0
        for op, cl in ((b'[', b']'), (b'{"a":', b'}')):
            for depth in (lim - 1, lim):
                for leaf_a, leaf_b, e in ((b'1', b'1', True), (b'1', b'2', False), (b'"x"', b'"x"', True), (b'null', b'false', False), (b'{"k":true}', b'{"k":true}', True), (b'[1,2]', b'[1,3]', False)):
                    if leaf_a[:1] in b'{[' and depth == lim:
                        continue
                    ta = '*%d:%s:%s:%s' % (depth, op.hex(), leaf_a.hex(), cl.hex())
                    tb = '*%d:%s:%s:%s' % (depth, op.hex(), leaf_b.hex(), cl.hex())
                    ops = ['parse 1 2 %s 0' % ta, 'parse 2 2 %s 0' % tb, 'cmpx 1 2 1', 'cmpx 1 2 0', 'dup 3 1 1', 'cmpx 1 3 1', 'del 1', 'del 2', 'del 3']
                    cases.append((cid, 'default', ops))
                    a_dummy = Node('z')
                    expect[cid] = ({2: ('deep-%d' % depth, e, None), 3: ('deep-%d-ci' % depth, e, None), 5: ('deep-%d-duplicate' % depth, True, None)}, a_dummy, 1)
                    cid += 1
        for kindc in 'ao':
            ops = ['deepchain 1 %s 3000' % kindc, 'deepchain 2 %s 3000' % kindc, 'deepchain 3 %s 2999' % kindc, 'deepchain 4 %s 3000 1' % kindc,
                   'cmpx 1 2 1', 'cmpx 1 3 1', 'cmpx 1 4 0', 'del 1', 'del 2', 'del 3', 'del 4']
            cases.append((cid, 'default', ops))
            expect[cid] = ({4: ('deep-3000', True, None), 5: ('deep-3000-vs-2999', False, None), 6: ('deep-3000-vs-elder', False, None)}, Node('z'), 1)
            cid += 1
        # breadth: more children than either limit allows levels; permuted wide objects
        N, M = 12000, 2500
        wa = 'a%d;' % N + ''.join('n%016x,%d;' % (d2b(float(i % 97)), i % 97) for i in range(N))
        wb = 'a%d;' % N + ''.join('n%016x,%d;' % (d2b(float(i % 97 if i != N - 1 else 5000)), i % 97 if i != N - 1 else 5000) for i in range(N))
        mo = ['k%s;n%016x,%d;' % ((b'm%d' % i).hex(), d2b(float(i % 89)), i % 89) for i in range(M)]
        ops = ['build 1 ' + wa, 'build 2 ' + wa, 'build 3 ' + wb, 'cmpx 1 2 1', 'cmpx 1 3 1', 'del 1', 'del 2', 'del 3',
               'build 1 o%d;' % M + ''.join(mo), 'build 2 o%d;' % M + ''.join(reversed(mo)), 'build 3 o%d;' % (M - 1) + ''.join(mo[:-1]), 'cmpx 1 2 1', 'cmpx 1 2 0', 'cmpx 1 3 1', 'cmpx 3 1 0', 'del 1', 'del 2', 'del 3']
        cases.append((cid, 'default', ops))
        expect[cid] = ({3: ('wide-array-equal', True, None), 4: ('wide-array-last-differs', False, None), 11: ('wide-object-permuted', True, None), 12: ('wide-object-permuted-ci', True, None),
                        13: ('wide-object-superset', False, None), 14: ('wide-object-subset-ci', False, None)}, Node('z'), 1)
        cid += 1
        count = 0
    for i in range(count):
        cs = rng.randrange(2)
        a = treegen.gen_tree(rng, maxdepth=rng.choice([1, 2, 3, 4]), valid_utf8=False, finite=rng.random() < 0.85, distinct_keys=True, const_keys=True, fold_distinct=not cs)
        if rng.random() < 0.15:
            # number-only trees: the tolerance boundary is where Compare is subtle
            a = Node('a')
            a.kids = [Node.num(treegen.hostile_double(rng, True)) for _ in range(rng.randrange(1, 5))]
        if rng.random() < 0.2:
            # zero and magnitudes far below 1 (down to subnormals): both sides of a mutant pair are tiny
            for n in all_nodes(a):
                if n.kind == 'n':
                    nn = Node.num(rng.choice(TINY + [0.0, -0.0]) * rng.choice([1, 1, -1]))
                    n.bits, n.ival = nn.bits, nn.ival
        # raw items take part in comparison like strings (byte equality), but are a type of their own
        for n in all_nodes(a):
            if n.kind == 's' and not n.ref and rng.random() < 0.15:
                n.kind = 'w'
        ops = ['build 1 ' + to_tn(a)]
        exp = {}
        ms = mutants(rng, a, cs)
        for label, m in ms:
            idx = len(ops) + 1
            ops += ['build 2 ' + to_tn(m), 'cmpx 1 2 %d' % cs, 'del 2']
            try:
                e = r5(a, m, cs)
            except NoClaim:
                e = None
            exp[idx] = (label, e, m)
        # reflexive (same pointer), duplicate, NULL and invalid arguments
        idx = len(ops)
        ops += ['cmpx 1 1 %d' % cs, 'dup 3 1 1', 'cmpx 1 3 %d' % cs, 'cmpx 1 ~ %d' % cs, 'cmpx ~ ~ %d' % cs, 'settype 3 0', 'cmpx 1 3 %d' % cs, 'cmpx 3 3 %d' % cs,
                'settype 3 %d' % (1 << 9), 'cmpx 3 3 %d' % cs, 'settype 3 4', 'del 3']
        finite = not treegen.has_nonfinite(a)
        exp[idx] = ('self', True if finite else None, a)
        exp[idx + 2] = ('duplicate', True if finite else None, a)
        exp[idx + 3] = ('null-argument', False, None)
        exp[idx + 4] = ('null-arguments', False, None)
        exp[idx + 6] = ('invalid-type', False, None)
        exp[idx + 7] = ('invalid-type-self', False, None)
        exp[idx + 9] = ('flags-only-type-self', False, None)
        # through references: [ref(a)] vs [copy(a)]
        ops += ['carr 4', 'addrefa 4 1', 'carr 5', 'dup 6 1 1', 'adda 5 6', 'cmpx 4 5 %d' % cs, 'del 4', 'del 5']
        exp[len(ops) - 3] = ('via-reference', True if finite else None, a)
        ops.append('del 1')
        cases.append((i, 'default', ops))
        expect[i] = (exp, a, cs)
    for fl, binary in bins.items():
        by_id = {c[0]: (c[1], c[2]) for c in cases}
        wit = case_witness(by_id, fl)
        logs = run_batch(binary, fl, cases, workdir, 'C12-%s' % seed)
        first = fl == sorted(bins)[0]
        for cid, (exp, a, cs) in expect.items():
            cl = logs[cid]
            out.vios += mechanical_violations(prop, cl, wit)
            if cl.died:
                continue
            for idx, (label, e, m) in exp.items():
                f = cl.ops.get(idx)
                if not f or f[0] != 'cmpx':
                    continue
                out.evals += 2
                got = f[1] == '1'
                if first:
                    out.count('mutation:' + label)
                    out.count('answer:%s' % ('equal' if got else 'unequal'))
                    if e is None:
                        out.count('no_claim')
                    out.seen(cid, idx)
                    out.count('nontrivial')
                if e is not None and got != e:
                    det = '%s (%s): Compare says %s, reference says %s; a=%s b=%s' % (label, 'case-sensitive' if cs else 'case-insensitive', got, e, to_tn(a)[:300], to_tn(m)[:300] if m is not None else '-')
                    out.vios.append(Violation(prop, 'C12/%s/%s' % ('false-equal' if got else 'false-unequal', label), det, wit(cl, idx)))
            if first and cid % 37 == 5:
                out.sample({'a': to_tn(a)[:160], 'case_sensitive': bool(cs), 'answers': {exp[i][0]: (logs[cid].ops.get(i) or ['?', '?'])[1] for i in sorted(exp)[:12]}})
    return out


def finish(prop, tier, results):
    tot = ShardOut()
    for r in results:
        tot.merge(r)
    cov = {
        'evaluations': tot.evals,
        'distinct_nontrivial': min(len(tot.distinct), tot.stats.get('nontrivial', 0)),
        'rule': 'base trees with keys distinct per object (distinct after folding for case-insensitive runs), each compared with ~40 single-point mutants (type flip, +-1/2/3 ulp, x(1+-2^-52), sign, finite->inf/NaN, string/key byte, key case, element/member insert/remove/swap), member permutations, ownership-flag variants, itself, a duplicate, NULL and invalid items; both argument orders; distinct = distinct (base, mutant) pairs',
        'samples': tot.samples[:8],
        'pairs_by_mutation': {k[9:]: v for k, v in sorted(tot.stats.items()) if k.startswith('mutation:')},
        'answers': {k[7:]: v for k, v in tot.stats.items() if k.startswith('answer:')},
        'pairs_without_claim': tot.stats.get('no_claim', 0),
    }
    inc = None
    if tot.evals == 0:
        inc = 'nothing was evaluated'
    a = cov['answers']
    if not a.get('equal') or not a.get('unequal'):
        inc = 'coverage floor: both answers must be observed'
    return tot.vios, cov, inc
