"""C01, C02, C03, C10 - the parser properties.  All use the driver's parse battery (`pbat`): every
entry point x termination mode x return_parse_end, guard-page / red-zone placement of the input,
walk + print + delete of accepted trees, ledger balance, pointer-range checks; the offline
oracles here decide acceptance (R1/R2) and the termination iff."""
import random
from . import corpus, jsonref
from .runner import ShardOut, Violation, run_batch, mechanical_violations, case_witness, REPO, SEED, HarnessFailure
from .tn import to_tn

RNT0 = (0, 1, 3, 5, 6, 8, 9, 11)
RNT1_X = (2, 4)
RNT1_Z = (7, 10)
NVAR = 12
CALLS_PER_PBAT = 14


def plan(prop, tier):
    q = tier == 'quick'
    flavours = ['asan', 'plain'] if q else ['asan', 'plain', 'msan', 'efence']
    shards = []
    if prop == 'C01':
        shards.append(('shapes', 0, 16))          # corpus split 16 ways (index, of)
        for i in range(1, 16):
            shards.append(('shapes', i, 16))
        n = 16 if q else 64
        per = 2500 if q else 40000
        for i in range(n):
            shards.append(('mutants', SEED * 1000 + i, per))
        shards.append(('nest', 0, 0))
    elif prop == 'C02':
        n = 16 if q else 64
        per = 2500 if q else 45000
        for i in range(n):
            shards.append(('valid', SEED * 1000 + i, per))
        shards.append(('deepvalid', 0, 0))
    elif prop == 'C03':
        for i in range(8):
            shards.append(('invalid', i, 8))
        n = 16 if q else 64
        per = 12 if q else 150     # base texts per shard; every single-edit corruption of each
        for i in range(n):
            shards.append(('corrupt', SEED * 1000 + i, per))
        shards.append(('nest', 0, 0))
    elif prop == 'C10':
        shards.append(('faults', 0, 0))
        shards.append(('wide', 0, 0))
        for i in range(8):
            shards.append(('shapes', i, 8))
        n = 16 if q else 64
        for i in range(n):
            shards.append(('mixed', SEED * 1000 + i, 2000 if q else 30000))
    if prop in ('C01', 'C10') and (not q or prop == 'C01'):
        # coverage-guided sessions, bounded by run count: 16 long ones in the thorough tier, 4 short ones on every change
        flavours = flavours + ['fuzz']
        for i in range(4 if q else 16):
            shards.append(('fuzz', SEED * 100 + i, 150000 if q else 1500000))
    return flavours, shards


# ---------------------------------------------------------------------------------------------
# expectations

def parse_pbat(fields):
    d = {}
    for f in fields[1:]:
        k, v = f.split('=', 1)
        d[k] = v
    d['end'] = [int(x) for x in d['end'].split(',')]
    d['err'] = [int(x) for x in d['err'].split(',')]
    return d


def consistency(prop, acc, b, d):
    """relations between entry points that need no reference model -> list of (key, detail)"""
    out = []
    has_nul = 0 in b
    groups = [(0, 1, 3), (2, 4), (5, 6, 8), (9, 11)]
    if prop in ('C02', 'C10'):
        for g in groups:
            if len({acc[i] for i in g}) != 1:
                out.append(('%s/accept/entry-points-disagree' % prop, 'variants %s accept differently: %s' % (g, acc)))
    if prop == 'C10' and not has_nul:
        n = len(b)
        if any(acc[i] == '1' for i in RNT1_X):
            out.append(('C10/termination/accepted-without-zero-byte', 'exact-length buffer without a zero byte accepted although termination was required: %s' % acc))
        for z1, z0 in ((7, 6), (10, 11)):
            if acc[z0] == '1' and d['end'][z0] >= 0:
                e = d['end'][z0]
                should = all(c <= 0x20 for c in b[e:n])
                if (acc[z1] == '1') != should:
                    out.append(('C10/termination/iff' + ('-rejected-terminated' if should else '-accepted-trailing'),
                                'value ends at %d, rest %r; terminated parse %s' % (e, b[e:n][:20], 'accepted' if acc[z1] == '1' else 'rejected')))
            elif acc[z0] == '0' and acc[z1] == '1':
                out.append(('C10/termination/accepted-only-when-required', 'accepted with termination required but not without: %s' % acc))
    return out


def judge_case(prop, clog, b, expect_tn, out, wit, label=''):
    """apply the offline oracles of `prop` to one pbat record"""
    f = next((v for _i, v in sorted(clog.ops.items()) if v and v[0] == 'pbat'), None)
    if not f:
        return
    d = parse_pbat(f)
    acc = d['acc']
    out.evals += CALLS_PER_PBAT
    for key, det in consistency(prop, acc, b, d):
        out.vios.append(Violation(prop, key, det + ' input=%r' % b[:80], wit(clog, 0)))
    if 0 in b:
        return
    if prop == 'C10' and label == 'valid+ws':
        # a value that is valid by construction, followed by blanks only: with the zero byte inside
        # the buffer a parse that requires termination must succeed
        bad = [i for i in RNT1_Z if acc[i] != '1']
        if bad:
            out.vios.append(Violation(prop, 'C10/termination/iff-rejected-terminated', 'valid value + blanks + zero byte rejected with termination required by variants %s: %r' % (bad, b[:80]), wit(clog, 0)))
    if prop == 'C02':
        if expect_tn is None:
            return
        must = RNT0 + RNT1_Z
        rej = [i for i in must if acc[i] != '1']
        if rej:
            cls = 'bom' if b.startswith(corpus.BOM) else 'plain'
            out.vios.append(Violation(prop, 'C02/reject-valid/%s' % cls, 'valid text rejected by variants %s: %r' % (rej, b[:120]), wit(clog, 0)))
        elif d['tn'] != expect_tn:
            out.vios.append(Violation(prop, 'C02/decode/tree-differs', 'text %r decoded to %s, expected %s' % (b[:120], d['tn'][:200], expect_tn[:200]), wit(clog, 0)))
    elif prop == 'C03':
        cp, _, whyp = jsonref.classify(b, False, jsonref.nesting_limit(REPO))
        ct, _, whyt = jsonref.classify(b, True, jsonref.nesting_limit(REPO))
        if cp == jsonref.REJECT:
            out.count('claims_reject_prefix_mode')
            bad = [i for i in RNT0 if acc[i] == '1']
            if bad:
                out.vios.append(Violation(prop, 'C03/accept-invalid/' + whyp.replace(' ', '-'), 'text outside the dialect (%s) accepted by variants %s: %r' % (whyp, bad, b[:120]), wit(clog, 0)))
        if ct == jsonref.REJECT:
            out.count('claims_reject_terminated_mode')
            bad = [i for i in RNT1_Z + RNT1_X if acc[i] == '1']
            if bad:
                out.vios.append(Violation(prop, 'C03/accept-invalid-terminated/' + whyt.replace(' ', '-'), 'text outside the dialect (%s) accepted with termination required by variants %s: %r' % (whyt, bad, b[:120]), wit(clog, 0)))
        if cp != jsonref.REJECT and ct != jsonref.REJECT:
            out.count('no_claim')
        return cp, ct


# ---------------------------------------------------------------------------------------------
# case builders

def pbat_case(cid, b, cfg='default', comma_locale=False):
    if comma_locale:
        # the same parse under a locale whose decimal point is a comma: results must not change
        return (cid, cfg, ['setloc 1', 'pbat =' + b.hex(), 'setloc 0'])
    return (cid, cfg, ['pbat =' + b.hex()])


def invalid_classes(rng):
    """texts invalid by construction, one generator per class named in C03"""
    C = {}
    C['unbalanced'] = [b'[', b'{', b']', b'}', b'[[1]', b'[1]]', b'{"a":[1}', b'[{"a":1]', b'{"a":1', b'[1,[2,[3]]', b'{"a":{"b":1}']
    C['mismatched'] = [b'[1}', b'{"a":1]', b'[{]}', b'{"a":[}]}', b'(1)', b'<1>']
    C['commas'] = [b'[1 2]', b'[1,,2]', b'[,1]', b'[1,]', b'[,]', b'{"a":1 "b":2}', b'{"a":1,,"b":2}', b'{,"a":1}', b'{"a":1,}', b'{,}']
    C['colons'] = [b'{"a" 1}', b'{"a"::1}', b'{"a":}', b'{"a"}', b'{:1}', b'{"a":1:2}', b'{"a";1}', b'{"a"=1}', b'[1:2]']
    C['keys'] = [b'{a:1}', b'{1:2}', b'{null:1}', b'{true:1}', b'{[]:1}', b'{{}:1}', b"{'a':1}", b'{-1:1}', b'{"a":1,b:2}']
    C['literals'] = [b'nul', b'tru', b'fals', b'True', b'TRUE', b'False', b'NULL', b'Null', b'nulL', b'n', b't', b'f', b'none', b'nil', b'undefined', b'NaN', b'Infinity', b'-Infinity', b'yes']
    C['numbers'] = [b'-', b'-a', b'+1', b'.', b'-.', b'e5', b'+', b'--1', b'-e5', b'E1', b'-+1', b'.e1', b'- 1', b'-"1"']
    C['quotes'] = [b"'a'", b'"abc', b'"', b'"a\\"', b'"a\\\\\\"', b'["a]', b'{"a:1}', b'{"a":"b}', b'"\\', b'abc"']
    esc = [b'"\\%c"' % c for c in b'acdeghijklmopqsvwxyzABCDEFGHIJKLMNOPQRSTUVWXYZ0123456789\'.-_ ']
    C['escapes'] = esc
    hexbad = []
    for pos in range(4):
        for badc in b'gGzZ-+ x.':
            h = bytearray(b'12aB')
            h[pos] = badc
            hexbad.append(b'"\\u' + bytes(h) + b'"')
    # every byte value in every digit position (also of the low half of a surrogate pair)
    for pos in range(4):
        for badc in range(1, 256):
            if badc in b'0123456789abcdefABCDEF"\\':
                continue
            h = bytearray(b'00e9')
            h[pos] = badc
            hexbad.append(b'"\\u' + bytes(h) + b'"')
            h2 = bytearray(b'dc00')
            h2[pos] = badc
            hexbad.append(b'"\\ud800\\u' + bytes(h2) + b'"')
    hexbad += [b'"\\u"', b'"\\u1"', b'"\\u12"', b'"\\u123"', b'"\\u 123"', b'"\\u12 34"', b'"\\uZZZZ"', b'"\\u00G0"', b'"\\u+123"', b'"\\u-123"', b'"\\u0x12"']
    C['hex4'] = hexbad
    C['surrogates'] = [b'"\\ud800"', b'"\\udbff"', b'"\\udc00"', b'"\\udfff"', b'"\\udc00\\ud800"', b'"\\ud800\\u0041"', b'"\\ud800\\ud800"',
                       b'"\\ud800x"', b'"\\ud800\\n"', b'"\\ud800\\udbff"', b'"\\ud83d\\u"', b'"\\ud83d\\ude"', b'"\\ud83d\\ude0"', b'"\\ud83d\\udg00"',
                       b'"a\\udc00b"', b'"\\ud800\\"', b'"\\uD800\\uE000"', b'"\\uDBFF\\uDBFF"', b'"\\ud800\\u00e9"']
    C['truncated'] = []
    for t in [b'[1,2,3]', b'{"a":1,"b":[true,false,null]}', b'"abc\\u0041d"', b'[{"k":"v"},1.5e3]', b'{"a":{"b":{"c":[]}}}']:
        for n in range(1, len(t)):
            C['truncated'].append(t[:n])
    # long runs of number characters: whatever the verdict on them (no claim beyond 63 characters),
    # rejecting them must not leave anything allocated
    C['long-number-runs'] = []
    for c in (b'e', b'E', b'+', b'-', b'.', b'e+', b'-.'):
        for L in (63, 64, 70, 200):
            C['long-number-runs'] += [b'-' + (c * L)[:L], b'1' + (c * L)[:L], b'-' + b'0' * L + c, b'--' + b'1' * L]
    # whitespace ends at 0x20: the bytes just above it, DEL and the high bytes that are blanks in some
    # single-byte encodings are not skipped between tokens
    nw = []
    for c in (b'!', b'#', b'\x7f', b'\x80', b'\x85', b'\xa0', b'\xff', b'\xc2\xa0', b'\xe2\x80\x83'):
        nw += [b'[1,' + c + b'2]', c + b'1', b'[' + c + b']', b'{' + c + b'"a":1}', b'{"a"' + c + b':1}', b'{"a":' + c + b'1}', b'[1' + c + b']', b'{"a":1' + c + b'}', b'[1' + c + b',2]', b'{"a":1,' + c + b'"b":2}']
    C['not-whitespace'] = nw
    # at most one byte order mark, and only at the very start
    B = corpus.BOM
    C['bom'] = [B + B + b'1', B + B + B + b'[true]', B + B + b'{"a":[1,2]}', B + B, B + B + B, B + b' ' + B + b'1', B + B + b' null ', B * 4 + b'"s"',
                B + b'\xef\xbb' + b'1', B + b'\xef' + b'1', B + B[:2] + B + b'[]']
    lim = jsonref.nesting_limit(REPO)
    C['nesting'] = [b'[' * (lim + 1) + b']' * (lim + 1), b'[' * (lim + 1), (b'{"a":' * (lim + 1)) + b'1' + b'}' * (lim + 1),
                    b'[' * (lim + 5) + b'1' + b']' * (lim + 5), (b'[{"a":' * (lim // 2 + 1)) + b'0' + (b'}]' * (lim // 2 + 1))]
    return C


PLACEMENTS = [('top', lambda x: x), ('array', lambda x: b'[' + x + b']'), ('array2', lambda x: b'[1,' + x + b']'),
              ('object', lambda x: b'{"a":' + x + b'}'), ('nested', lambda x: b'{"a":[{"b":' + x + b'}]}'), ('ws', lambda x: b' \n' + x + b'\t ')]

EDIT_ALPHABET = b'{}[],:"\\ 0-1.eEtnfau\x00/\x01\x7f!\xa0'


def single_edits(t):
    out = set()
    n = len(t)
    for i in range(n):
        out.add(t[:i] + t[i + 1:])
        for c in EDIT_ALPHABET:
            out.add(t[:i] + bytes([c]) + t[i + 1:])
    for i in range(n + 1):
        for c in EDIT_ALPHABET:
            out.add(t[:i] + bytes([c]) + t[i:])
    out.discard(t)
    return sorted(out)


# ---------------------------------------------------------------------------------------------
# shard execution

def run_shard(shard_prop, bins, workdir, tier):
    prop, shard = shard_prop
    kind, a, bcount = shard
    out = ShardOut()
    thorough = tier == 'thorough'
    inputs = []      # (bytes, expected TN or None, class label)
    special = []     # extra cases with their own ops (nest shapes)
    lim = jsonref.nesting_limit(REPO)
    rng = random.Random((hash(prop) & 0xffff) * 7919 + a * 31 + 17)
    rng = random.Random('%s-%s-%s' % (prop, kind, a))
    if kind == 'fuzz':
        from . import fuzzrun
        return fuzzrun.run_fuzz(prop, bins['fuzz'], workdir, a, bcount, rng)
    if kind == 'faults':
        # the failure clauses of C10 also hold when the parse fails for lack of memory: every request
        # index of the whole battery is refused once (fault loop), under both allocator configurations
        texts = [b'{"a": {"b": [true, false, null]}, "c": "d"}', b'[1, "two", [3]]', b'"text"', b'7', b'[1,', b'{"k":']
        cases = []
        for ci, t in enumerate(texts):
            for cfg in ('custom', 'default'):
                cases.append((len(cases), cfg, ['fbegin', 'ftarget pbat =' + t.hex(), 'fend']))
        for fl, binary in bins.items():
            if fl in ('fuzz', 'msan'):
                continue
            by_id = {c[0]: (c[1], c[2]) for c in cases}
            wit = case_witness(by_id, fl, thorough)
            logs = run_batch(binary, fl, cases, workdir, 'C10-faults', thorough)
            for c in cases:
                cl = logs[c[0]]
                out.vios += mechanical_violations(prop, cl, wit)
                its = [r for r in cl.seq if r[0] == 'F' and r[1] != 'done']
                out.evals += len(its)
                out.count('fault_iterations', len(its))
                out.seen('faults', c[0])
                out.count('nontrivial')
        return out
    if kind == 'shapes':
        texts = corpus.shape_corpus()
        pref = corpus.all_prefixes(texts)
        mine = [p for i, p in enumerate(pref) if i % bcount == a]
        for p in mine:
            inputs.append((p, None, 'shape-prefix'))
            if prop == 'C01' and 0 < len(p) <= 24 and a == 0:
                pass
    elif kind == 'mutants':
        toks = corpus.dict_tokens()
        bases = corpus.repo_inputs()
        for _ in range(40):
            bases.append(jsonref.gen_text(rng, maxdepth=4)[0])
        for _ in range(bcount):
            r = rng.random()
            if r < 0.55:
                inputs.append((corpus.mutate(rng, rng.choice(bases), toks), None, 'mutant'))
            elif r < 0.8:
                inputs.append((corpus.mutate(rng, jsonref.gen_text(rng, maxdepth=3)[0], toks), None, 'mutant-gen'))
            else:
                inputs.append((corpus.random_bytes(rng), None, 'random'))
    elif kind == 'valid':
        for _ in range(bcount):
            t, v = jsonref.gen_text(rng, maxdepth=rng.choice([1, 2, 3, 5, 8]))
            r = rng.random()
            if r < 0.15:
                t = corpus.BOM + t
            if r > 0.6:
                t = jsonref.ws(rng, 1.0) + t + jsonref.ws(rng, 1.0)
                if r > 0.9 and t.startswith(b' ') is False:
                    pass
            if b'\\u0000' in t.lower():
                continue
            inputs.append((t, to_tn(v), 'valid'))
        # BOM + one-character values in exact-length buffers (3 + 1 bytes)
        for lit, tnx in ((b'1', 'n3ff0000000000000,1;'), (b'0', 'n0000000000000000,0;'), (b'7', 'n401c000000000000,7;')):
            inputs.append((corpus.BOM + lit, tnx, 'valid-bom-short'))
        inputs.append((corpus.BOM + b'[]', 'a0;', 'valid-bom-short'))
        inputs.append((corpus.BOM + b'""', 's;', 'valid-bom-short'))
    elif kind == 'deepvalid':
        for k in (1, 2, lim - 1, lim):
            for op, cl, mid, inner in ((b'[', b']', b'', 'a0;'), (b'[', b']', b'1', None), (b'{"a":', b'}', b'null', None)):
                t = op * k + mid + cl * k
                if mid == b'':
                    tnx = 'a1;' * (k - 1) + 'a0;'
                elif op == b'[':
                    tnx = 'a1;' * k + 'n3ff0000000000000,1;'
                else:
                    tnx = 'o1;' + 'k61;o1;' * (k - 1) + 'k61;z'
                inputs.append((t, tnx, 'valid-deep-%d' % k))
        # breadth must not count as depth: more sibling containers than the nesting limit allows levels
        for n in (lim + 1, 2 * lim + 7):
            for elem, etn in ((b'[]', 'a0;'), (b'{}', 'o0;'), (b'[[]]', 'a1;a0;'), (b'{"a":[]}', 'o1;k61;a0;'), (b'{"a":{}}', 'o1;k61;o0;'), (b'[1]', 'a1;n3ff0000000000000,1;'), (b'[{}]', 'a1;o0;')):
                inputs.append((b'[' + b','.join([elem] * n) + b']', 'a%d;' % n + etn * n, 'valid-wide-%d' % n))
                inputs.append((b'{"w":[' + b' , '.join([elem] * n) + b'],"tail":' + elem + b'}', 'o2;k77;a%d;' % n + etn * n + 'k7461696c;' + etn, 'valid-wide-%d' % n))
            inputs.append((b'{' + b','.join(b'"k%d":[]' % i for i in range(n)) + b'}', 'o%d;' % n + ''.join('k%s;a0;' % (b'k%d' % i).hex() for i in range(n)), 'valid-wide-%d' % n))
    elif kind == 'invalid':
        C = invalid_classes(rng)
        names = sorted(C)
        i = 0
        for cname in names:
            for t in C[cname]:
                for pname, pf in PLACEMENTS:
                    if cname == 'nesting' and pname != 'top':
                        continue
                    if cname == 'hex4' and pname not in ('top', 'object'):
                        continue
                    if i % bcount == a:
                        inputs.append((pf(t), None, 'invalid:%s:%s' % (cname, pname)))
                    i += 1
    elif kind == 'corrupt':
        for _ in range(bcount):
            t, _v = jsonref.gen_text(rng, maxdepth=2, p_ws=0.15)
            if len(t) > 40:
                continue
            for e in single_edits(t):
                inputs.append((e, None, 'single-edit'))
    elif kind == 'mixed':
        toks = corpus.dict_tokens()
        for _ in range(bcount):
            r = rng.random()
            t, v = jsonref.gen_text(rng, maxdepth=3)
            if r < 0.12 and b'\\u0000' not in t.lower():
                inputs.append((t + rng.choice([b'', b' ', b'\n\t', b'\r\n \t ']), None, 'valid+ws'))
            elif r < 0.3:
                tail = rng.choice([b'', b' ', b'\n\t', b'x', b' x', b',', b']', b'\x00', b' \x00', b'\x00x', b'\x01', b' 1', b'null', b'\x00\x00'])
                inputs.append((t + tail, None, 'valid+tail'))
            elif r < 0.5:
                inputs.append((t[:rng.randrange(len(t) + 1)], None, 'truncated'))
            elif r < 0.7:
                inputs.append((corpus.mutate(rng, t, toks), None, 'mutant'))
            elif r < 0.8:
                inputs.append((corpus.BOM + t + rng.choice([b'', b' ', b'x']), None, 'bom'))
            elif r < 0.9:
                inputs.append((jsonref.ws(rng, 1.0) * rng.randrange(1, 4), None, 'only-ws'))
            else:
                inputs.append((rng.choice([b'[', b'"', b'-', b'{"a":', b'{', b'[1,', b'"\\', b'"\\u12', b'tru', b'1e', b' ', b'']), None, 'fail-at-last-byte'))
    elif kind == 'wide':
        # breadth is not depth: more sibling containers (empty ones too) than the nesting limit has levels
        for n in (lim - 1, lim + 1, 2 * lim + 7):
            for elem in (b'[]', b'{}', b'{ }', b'[ ]', b'[[]]', b'{"a":{}}', b'[{}]', b'""', b'{"a":[]}'):
                for doc in (b'[' + b','.join([elem] * n) + b']', b'{"w":[' + b' , '.join([elem] * n) + b'],"tail":' + elem + b'}',
                            b'{' + b','.join(b'"k%d":%s' % (i, elem) for i in range(n)) + b'}'):
                    for tail in (b'', b' \n', b'x', b' ]'):
                        inputs.append((doc + tail, None, 'valid+ws' if tail.strip() == b'' else 'valid+tail'))
    elif kind == 'nest':
        pass
    else:
        raise HarnessFailure('unknown shard kind %s' % kind)

    cases = []
    meta = {}
    for i, (b, etn, label) in enumerate(inputs):
        cases.append(pbat_case(i, b, comma_locale=(prop in ('C02', 'C01', 'C10') and label.startswith(('valid', 'mutant')) and i % 5 == 3)))
        meta[i] = (b, etn, label)
    nest_cases = []
    if kind == 'nest':
        shapes = corpus.nest_shapes(lim)
        cid = 0
        # calibration: valid document at exactly the nesting limit, then every shape
        ops = ['pstack *%d:5b::5d' % lim, 'pstack *%d:7b2261223a:31:7d' % lim]
        labels = ['calib-array', 'calib-object']
        for desc, tok, k, valid in shapes:
            ops.append('pstack ' + tok)
            labels.append(desc)
        nest_cases.append((100000, 'default', ops))
        nest_cases.append((100001, 'custom', ops))
        meta['nest_labels'] = labels
        meta['nest_valid'] = [True, True] + [s[3] for s in shapes]
        cid = 100010
        for desc, tok, k, valid in shapes:
            if k > 100 * lim and prop != 'C01':
                continue
            nest_cases.append((cid, 'default', ['pbat ' + tok]))
            meta[cid] = (desc, valid)
            cid += 1

    for fl, binary in bins.items():
        if fl == 'fuzz' or (fl == 'msan' and kind in ('nest',)):
            continue
        by_id = {c[0]: (c[1], c[2]) for c in cases + nest_cases}
        wit = case_witness(by_id, fl, thorough)
        if cases:
            logs = run_batch(binary, fl, cases, workdir, '%s-%s-%s' % (prop, kind, a), thorough)
            for cid, (b, etn, label) in [(k, v) for k, v in meta.items() if isinstance(k, int) and k < 100000]:
                cl = logs[cid]
                out.vios += mechanical_violations(prop, cl, wit)
                if cl.died:
                    continue
                r = judge_case(prop, cl, b, etn, out, wit, label)
                if fl == 'asan' or len(bins) == 1:
                    out.count('class:' + label.split(':')[0] if prop != 'C03' else 'class:' + ':'.join(label.split(':')[:2]))
                    if r and r[0] == jsonref.REJECT or (r and r[1] == jsonref.REJECT):
                        out.count('rejclass:' + ':'.join(label.split(':')[:2]))
                    out.seen(b)
                    if len(b) > 1:
                        out.count('nontrivial')
                    f = next((v for _i, v in sorted(cl.ops.items()) if v and v[0] == 'pbat'), None)
                    if cl.ops.get(0) and cl.ops[0][:2] == ['setloc', 'comma']:
                        out.count('parsed_under_comma_locale')
                    if f and len(out.samples) < 4 and len(b) < 60 and (cid % 97 == 3):
                        out.sample({'input': repr(b), 'class': label, 'accepted_by_variant': parse_pbat(f)['acc']})
        if nest_cases:
            logs = run_batch(binary, fl, nest_cases, workdir, '%s-nest' % prop, thorough)
            for cid in (100000, 100001):
                cl = logs[cid]
                out.vios += mechanical_violations(prop, cl, wit)
                if cl.died:
                    continue
                used = []
                accs = []
                for idx in sorted(cl.ops):
                    f = cl.ops[idx]
                    if f[0] == 'pstack':
                        kv = dict(x.split('=') for x in f[1:])
                        used.append(int(kv['used']))
                        accs.append(kv['acc'] == '1')
                if len(used) != len(meta['nest_labels']):
                    raise HarnessFailure('pstack records missing')
                plateau = max(used[0], used[1])
                for j, (u, acc_) in enumerate(zip(used, accs)):
                    lab = meta['nest_labels'][j]
                    out.evals += 1
                    out.seen('nest', lab)
                    out.count('nontrivial')
                    if fl == 'plain':
                        out.count('stack_measurements')
                        out.stats['stack_plateau_bytes'] = plateau
                        out.stats['stack_max_bytes'] = max(out.stats.get('stack_max_bytes', 0), u)
                    if u > plateau + 16384:
                        out.vios.append(Violation(prop, 'stack/above-plateau', '%s: %d bytes of stack, document at the nesting limit needs %d' % (lab, u, plateau), wit(cl, j)))
                    if prop == 'C03' and not meta['nest_valid'][j] and acc_:
                        out.vios.append(Violation(prop, 'C03/accept-invalid/too-deep-or-unbalanced', '%s was accepted' % lab, wit(cl, j)))
                    if prop in ('C02',) and meta['nest_valid'][j] and not acc_:
                        out.vios.append(Violation(prop, 'C02/reject-valid/deep', '%s was rejected' % lab, wit(cl, j)))
                if len(out.samples) < 6:
                    out.sample({'nesting_shapes': meta['nest_labels'][2:8], 'stack_bytes': used[2:8], 'plateau': plateau, 'flavour': fl})
            for cid, v in meta.items():
                if not isinstance(cid, int) or cid < 100010:
                    continue
                cl = logs[cid]
                out.vios += mechanical_violations(prop, cl, wit)
                if cl.died:
                    continue
                desc, valid = v
                f = cl.ops.get(0)
                acc = parse_pbat(f)['acc']
                out.evals += CALLS_PER_PBAT
                out.count('class:nest')
                if prop == 'C03' and not valid and '1' in acc:
                    out.vios.append(Violation(prop, 'C03/accept-invalid/too-deep-or-unbalanced', '%s accepted: %s' % (desc, acc), wit(cl, 0)))
    return out


def finish(prop, tier, results):
    tot = ShardOut()
    for r in results:
        tot.merge(r)
    inconclusive = None
    cov = {
        'evaluations': tot.evals,
        'distinct_nontrivial': min(len(tot.distinct), tot.stats.get('nontrivial', 0)),
        'rule': {
            'C01': 'distinct byte strings (every prefix of ~3900 wrapped token shapes, mutated repository/generated documents, random structural bytes, nesting shapes 999..10^6) each given to 12 entry-point/mode variants + 2 mirrored guard placements; non-trivial = more than one byte',
            'C02': 'distinct RFC 8259 texts generated value-first with random spellings (escapes, surrogate pairs, whitespace, BOM, 62/63-char numbers, depth up to the nesting limit); expected tree known by construction; non-trivial = more than one byte',
            'C03': 'distinct texts: invalid-by-construction classes x 6 placements, every single-edit corruption (24-byte alphabet) of short valid texts, nesting shapes; a claim is made only where the independent recogniser classifies the text as outside the lenient dialect; non-trivial = more than one byte',
            'C10': 'distinct buffers (shape prefixes, valid+tail, truncated, mutated, BOM, whitespace-only, failure at last byte) x 12 variants; pointer-range and prefix-reparse checks in-process, termination iff offline; non-trivial = more than one byte',
        }[prop],
        'samples': tot.samples[:8],
        'classes': {k[6:]: v for k, v in sorted(tot.stats.items()) if k.startswith('class:')},
        'library_calls_under_monitor': tot.evals,
    }
    for k in ('fuzz_execs', 'fuzz_sessions', 'fuzz_cov_edges_max', 'fuzz_new_corpus_units', 'fuzz_seed_inputs'):
        if k in tot.stats:
            cov[k] = tot.stats[k]
    for k in ('parsed_under_comma_locale', 'fault_iterations'):
        if k in tot.stats:
            cov[k] = tot.stats[k]
    for k in ('claims_reject_prefix_mode', 'claims_reject_terminated_mode', 'no_claim', 'stack_measurements', 'stack_plateau_bytes', 'stack_max_bytes'):
        if k in tot.stats:
            cov[k] = tot.stats[k]
    if prop == 'C03':
        rc = {k[9:]: v for k, v in tot.stats.items() if k.startswith('rejclass:')}
        cov['reject_claims_by_class'] = rc
        need = ['not-whitespace', 'bom', 'unbalanced', 'mismatched', 'commas', 'colons', 'keys', 'literals', 'numbers', 'quotes', 'escapes', 'hex4', 'surrogates', 'truncated', 'nesting']
        missing = [c for c in need if not any(k.startswith('invalid:' + c) for k in rc)]
        if missing:
            inconclusive = 'coverage floor: no reject claim in classes %s' % missing
    if tot.evals == 0:
        inconclusive = 'nothing was evaluated'
    return tot.vios, cov, inconclusive
