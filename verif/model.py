"""R4: ordered list/map model of cJSON trees, slots (handles) and ownership, plus the generator
of op-programs that are meaningful against the model.  Every method appends one op line for the
driver and the record the driver must answer with (None = not compared)."""
import math
from .tn import Node, to_tn, tn_crc, hx, d2b, b2d, sat_int
from . import treegen, jsonref

T_FALSE, T_TRUE, T_NULL, T_NUMBER, T_STRING, T_ARRAY, T_OBJECT, T_RAW = 1, 2, 4, 8, 16, 32, 64, 128
KIND_TYPE = {'f': T_FALSE, 't': T_TRUE, 'z': T_NULL, 'n': T_NUMBER, 's': T_STRING, 'a': T_ARRAY, 'o': T_OBJECT, 'w': T_RAW}

KEYS = [b'a', b'A', b'b', b'B', b'ab', b'aB', b'', b'k\xc3\xa9', b'K\xc3\xa9', b'k[', b'k{', b'K@', b'k`']


def fold(b):
    return b.lower()      # bytes.lower() folds ASCII only, like tolower() in the C locale


class World:
    def __init__(self, rng, nslots=120):
        self.rng = rng
        self.ops = []
        self.exp = []
        self.slots = {}            # slot -> Node
        self.free = list(range(nslots, 0, -1))
        self.roots = []            # live owned roots
        self.frozen = {}           # uid -> number of live references to this root
        self.last_mut = ''
        self.opnames = []

    # ---- plumbing ----
    def emit(self, line, expect):
        self.ops.append(line)
        self.exp.append(expect)
        self.opnames.append(line.split(' ', 1)[0])

    def new_slot(self, node):
        s = self.free.pop()
        self.slots[s] = node
        return s

    def slot_of(self, node):
        for s, n in self.slots.items():
            if n is node:
                return s
        return None

    def drop_slot(self, s):
        if s in self.slots:
            del self.slots[s]
            self.free.append(s)

    def root_of(self, n):
        while n.parent is not None:
            n = n.parent
        return n

    def owned_nodes(self, root):
        out = []
        st = [root]
        while st:
            m = st.pop()
            out.append(m)
            if m.kids and not m.ref:
                st.extend(m.kids)
        return out

    def is_frozen(self, n):
        return self.frozen.get(self.root_of(n).uid, 0) > 0

    def forget_tree(self, root):
        """the library deleted this tree: drop slots, release references held by it"""
        nodes = self.owned_nodes(root)
        ids = {id(m) for m in nodes}
        for s in [s for s, n in self.slots.items() if id(n) in ids]:
            self.drop_slot(s)
        for m in nodes:
            t = getattr_ref(m)
            if t is not None:
                self.frozen[t.uid] -= 1
        if root in self.roots:
            self.roots.remove(root)

    def check_all(self):
        for r in list(self.roots):
            s = self.slot_of(r)
            self.emit('chk %d' % s, ['chk', tn_crc(r)])

    # ---- pickers ----
    def pick_root(self, pred=None, mutable=True):
        c = [r for r in self.roots if (not mutable or not self.is_frozen(r)) and (pred is None or pred(r))]
        return self.rng.choice(c) if c else None

    def pick_container(self, kind=None, mutable=True):
        c = []
        for r in self.roots:
            if mutable and self.is_frozen(r):
                continue
            for m in self.owned_nodes(r):
                if m.kind in 'ao' and not m.ref and (kind is None or m.kind == kind):
                    c.append(m)
        return self.rng.choice(c) if c else None

    def handle(self, node):
        """slot holding `node`, navigating from its root with driver-side `child` ops if needed"""
        s = self.slot_of(node)
        if s is not None:
            return s
        path = []
        n = node
        while self.slot_of(n) is None:
            path.append(n.parent.kids.index(n))
            n = n.parent
        cur = self.slot_of(n)
        curnode = n
        for idx in reversed(path):
            curnode = curnode.kids[idx]
            s = self.new_slot(curnode)
            self.emit('child %d %d %d' % (s, cur, idx), ['p'])
            cur = s
        return cur

    # ---- creation ----
    def mk_scalar(self):
        rng = self.rng
        r = rng.random()
        if r < 0.12:
            n = Node('z'); line = 'cnull %d'
        elif r < 0.2:
            n = Node('t'); line = 'ctrue %d'
        elif r < 0.28:
            n = Node('f'); line = 'cfalse %d'
        elif r < 0.34:
            v = rng.random() < 0.5
            n = Node('t' if v else 'f'); line = 'cbool %%d %d' % (1 if v else 0)
        elif r < 0.6:
            x = treegen.hostile_double(rng, finite=True)
            n = Node.num(x); line = 'cnum %%d %016x' % d2b(x)
        elif r < 0.85:
            b = treegen.rand_bytes_string(rng, False, 6)
            n = Node.string(b); line = 'cstr %%d %s' % hx(b)
        elif r < 0.92:
            b = rng.choice([b'1', b'[1,2]', b'{"x":null}', b'raw text', b''])
            n = Node('w', sval=b); line = 'craw %%d %s' % hx(b)
        else:
            b = treegen.rand_bytes_string(rng, False, 6)
            n = Node('s', sval=b, ref=True); line = 'cstrref %%d %s' % hx(b)
        s = self.new_slot(n)
        self.emit(line % s, ['p'])
        self.roots.append(n)
        return n

    def mk_container(self, kind=None):
        kind = kind or self.rng.choice('ao')
        n = Node(kind)
        s = self.new_slot(n)
        self.emit(('carr %d' if kind == 'a' else 'cobj %d') % s, ['p'])
        self.roots.append(n)
        return n

    def mk_bulk(self):
        rng = self.rng
        which = rng.choice(['cints', 'cfloats', 'cdoubles', 'cstrs'])
        r = rng.random()
        s = self.new_slot(None)
        if r < 0.1:
            self.emit('%s %d ~ %d' % (which, s, rng.choice([0, 1, 3])), ['nil'])
            self.drop_slot(s)
            return None
        cnt = rng.choice([0, 0, 1, 2, 3, 6])
        if r < 0.2:
            cnt_arg = -rng.choice([1, 2, 100])
        else:
            cnt_arg = cnt
        arr = Node('a')
        toks = []
        have = max(cnt, 1)
        for i in range(have):
            if which == 'cints':
                v = rng.choice([0, 1, -1, 2147483647, -2147483648, rng.randrange(-10 ** 6, 10 ** 6)])
                toks.append(str(v)); k = Node.num(float(v))
            elif which == 'cfloats':
                import struct
                f = rng.choice([0.0, 1.5, -2.25, 3.4028234663852886e38, 1e-40, 16777217.0, 0.1])
                u = struct.unpack('<I', struct.pack('<f', f))[0]
                toks.append('%08x' % u); k = Node.num(struct.unpack('<f', struct.pack('<I', u))[0])
            elif which == 'cdoubles':
                x = treegen.hostile_double(rng, True)
                toks.append('%016x' % d2b(x)); k = Node.num(x)
            else:
                b = treegen.rand_bytes_string(rng, False, 5)
                toks.append(hx(b)); k = Node.string(b)
            if i < cnt:
                k.parent = arr
                arr.kids.append(k)
        self.emit('%s %d %d %s' % (which, s, cnt_arg, ' '.join(toks)), ['nil'] if cnt_arg < 0 else ['p'])
        if cnt_arg < 0:
            self.drop_slot(s)
            return None
        self.slots[s] = arr
        self.roots.append(arr)
        return arr

    def mk_parsed(self):
        t, v = jsonref.gen_text(self.rng, maxdepth=2)
        if b'\\u0000' in t.lower():
            return None
        s = self.new_slot(v)
        self.emit('parse %d %d %s 0' % (s, self.rng.choice([0, 1, 2, 3]), hx(t)), ['p'])
        self.roots.append(v)
        return v

    # ---- edits ----
    def detached_item(self):
        """a mutable root that can be handed to an add/insert/replace call; create one if needed"""
        rng = self.rng
        c = [r for r in self.roots if not self.is_frozen(r)]
        if c and rng.random() < 0.35:
            # items that come with a past (a key of their own, owned or constant, from an earlier life
            # as a member) are the interesting ones to hand back to the library
            keyed = [r for r in c if r.key is not None]
            if keyed and rng.random() < 0.6:
                return rng.choice(keyed)
            return rng.choice(c)
        if rng.random() < 0.75:
            return self.mk_scalar()
        return self.mk_container()

    def attach(self, parent, item, index=None):
        if item in self.roots:
            self.roots.remove(item)
        item.parent = parent
        if index is None:
            parent.kids.append(item)
        else:
            parent.kids.insert(index, item)

    def op_add(self):
        rng = self.rng
        r = rng.random()
        if r < 0.45:
            a = self.pick_container('a')
            if a is None:
                a = self.mk_container('a')
            item = self.detached_item()
            if item is self.root_of(a):
                self.emit('adda %d %d' % (self.handle(a), self.handle(a)), ['0']) if item is a else None
                return
            sa, si = self.handle(a), self.handle(item)
            self.emit('adda %d %d' % (sa, si), ['1'])
            self.attach(a, item)
            self.last_mut = 'adda'
        else:
            o = self.pick_container('o')
            if o is None:
                o = self.mk_container('o')
            item = self.detached_item()
            if item is self.root_of(o):
                if item is o:
                    self.emit('addo %d %s %d' % (self.handle(o), hx(b'a'), self.handle(o)), ['0'])
                return
            key = rng.choice(KEYS)
            so, si = self.handle(o), self.handle(item)
            if r < 0.6 or item.ref and False:
                self.emit('addocs %d %s %d' % (so, hx(key), si), ['1'])
                item.key, item.kconst = key, True
                self.last_mut = 'addocs'
            elif r < 0.66 and item.key is not None:
                # key argument aliases the item's own (owned or constant) key
                self.emit('addo_self %d %d' % (so, si), ['1'])
                item.kconst = False
                self.last_mut = 'addo_self'
            else:
                self.emit('addo %d %s %d' % (so, hx(key), si), ['1'])
                item.key, item.kconst = key, False
                self.last_mut = 'addo'
            self.attach(o, item)

    def op_helper(self):
        rng = self.rng
        o = self.pick_container('o')
        if o is None:
            o = self.mk_container('o')
        key = rng.choice(KEYS)
        so = self.handle(o)
        d = self.new_slot(None)
        which = rng.choice(['hnull', 'htrue', 'hfalse', 'hbool', 'hnum', 'hstr', 'hraw', 'hobj', 'harr'])
        if which == 'hnull':
            n = Node('z'); line = 'hnull %d %s %d' % (so, hx(key), d)
        elif which == 'htrue':
            n = Node('t'); line = 'htrue %d %s %d' % (so, hx(key), d)
        elif which == 'hfalse':
            n = Node('f'); line = 'hfalse %d %s %d' % (so, hx(key), d)
        elif which == 'hbool':
            v = rng.random() < 0.5
            n = Node('t' if v else 'f'); line = 'hbool %d %s %d %d' % (so, hx(key), 1 if v else 0, d)
        elif which == 'hnum':
            x = treegen.hostile_double(rng, True)
            n = Node.num(x); line = 'hnum %d %s %016x %d' % (so, hx(key), d2b(x), d)
        elif which == 'hstr':
            b = treegen.rand_bytes_string(rng, False, 5)
            n = Node.string(b); line = 'hstr %d %s %s %d' % (so, hx(key), hx(b), d)
        elif which == 'hraw':
            b = rng.choice([b'1', b'{}', b'x'])
            n = Node('w', sval=b); line = 'hraw %d %s %s %d' % (so, hx(key), hx(b), d)
        elif which == 'hobj':
            n = Node('o'); line = 'hobj %d %s %d' % (so, hx(key), d)
        else:
            n = Node('a'); line = 'harr %d %s %d' % (so, hx(key), d)
        n.key = key
        self.emit(line, ['p'])
        self.slots[d] = n
        n.parent = o
        o.kids.append(n)
        self.last_mut = which

    def op_insert(self):
        rng = self.rng
        a = self.pick_container('a')
        if a is None:
            a = self.mk_container('a')
        item = self.detached_item()
        if item is self.root_of(a):
            return
        n = len(a.kids)
        idx = rng.choice([0, 0, n // 2, max(n - 1, 0), n, n + 1, n + 5])
        self.emit('ins %d %d %d' % (self.handle(a), idx, self.handle(item)), ['1'])
        self.attach(a, item, idx if idx < n else None)
        self.last_mut = 'ins@%s' % ('0' if idx == 0 else 'end' if idx >= n else 'mid')

    def op_detach(self):
        rng = self.rng
        p = self.pick_container()
        if p is None or not p.kids:
            return
        n = len(p.kids)
        d = self.new_slot(None)
        r = rng.random()
        sp = self.handle(p)
        if r < 0.35:
            idx = rng.choice([0, n - 1, rng.randrange(n)])
            item = p.kids[idx]
            si = self.handle(item)
            self.emit('detp %d %d %d' % (sp, si, d), ['p'])
            self.last_mut = 'detp@%s' % ('only' if n == 1 else 'first' if idx == 0 else 'last' if idx == n - 1 else 'mid')
        elif r < 0.65 or p.kind == 'a':
            idx = rng.choice([0, n - 1, rng.randrange(n)])
            item = p.kids[idx]
            self.emit('deta %d %d %d' % (sp, idx, d), ['p'])
            self.last_mut = 'deta'
        else:
            cs = rng.random() < 0.5
            key = rng.choice([k.key for k in p.kids if k.key is not None] or [b'a'])
            if rng.random() < 0.3:
                key = key.swapcase()
            item = self.lookup(p, key, cs)
            self.emit('%s %d %s %d' % ('detocs' if cs else 'deto', sp, hx(key), d), ['p'] if item else ['nil'])
            self.last_mut = 'deto'
            if item is None:
                self.drop_slot(d)
                return
        p.kids.remove(item)
        item.parent = None
        self.roots.append(item)
        old = self.slot_of(item)
        if old is not None and old != d:
            self.slots[d] = item   # two slots may hold the same node; keep the older one too
        else:
            self.slots[d] = item

    def op_delete_child(self):
        rng = self.rng
        p = self.pick_container()
        if p is None or not p.kids:
            return
        n = len(p.kids)
        sp = self.handle(p)
        if p.kind == 'a' or rng.random() < 0.5:
            idx = rng.randrange(n)
            item = p.kids[idx]
            self.emit('dela %d %d' % (sp, idx), ['v'])
        else:
            cs = rng.random() < 0.5
            key = rng.choice([k.key for k in p.kids if k.key is not None] or [b'a'])
            if rng.random() < 0.3:
                key = key.swapcase()
            item = self.lookup(p, key, cs)
            self.emit('%s %d %s' % ('delocs' if cs else 'delo', sp, hx(key)), ['v'])
            if item is None:
                return
        p.kids.remove(item)
        item.parent = None
        self.forget_tree(item)
        self.last_mut = 'delete-child'

    def op_delete_root(self):
        r = self.pick_root()
        if r is None:
            return
        s = self.handle(r)
        self.emit('del %d' % s, ['v'])
        self.forget_tree(r)
        self.drop_slot(s)
        self.last_mut = 'del'

    def lookup(self, o, key, cs):
        if key is None:
            return None
        if cs:
            for k in o.kids:
                if k.key is None:
                    return None
                if k.key == key:
                    return k
            return None
        fk = fold(key)
        for k in o.kids:
            if k.key is not None and fold(k.key) == fk:
                return k
        return None

    def op_replace(self):
        rng = self.rng
        p = self.pick_container()
        if p is None or not p.kids:
            return
        n = len(p.kids)
        rep = self.detached_item()
        if rep is self.root_of(p):
            return
        sp = self.handle(p)
        r = rng.random()
        if p.kind == 'a' and r < 0.5:
            idx = rng.choice([0, n - 1, rng.randrange(n)])
            old = p.kids[idx]
            self.emit('repa %d %d %d' % (sp, idx, self.handle(rep)), ['1'])
            self.last_mut = 'repa@%s' % ('only' if n == 1 else 'first' if idx == 0 else 'last' if idx == n - 1 else 'mid')
        elif p.kind == 'a' or (r < 0.3 and rep.key is not None):
            idx = rng.choice([0, n - 1, rng.randrange(n)])
            old = p.kids[idx]
            if p.kind == 'o' and rep.key is None:
                return
            self.emit('repp %d %d %d' % (sp, self.handle(old), self.handle(rep)), ['1'])
            self.last_mut = 'repp@%s' % ('only' if n == 1 else 'first' if idx == 0 else 'last' if idx == n - 1 else 'mid')
        else:
            cs = rng.random() < 0.5
            keys = [k.key for k in p.kids if k.key is not None]
            key = rng.choice(keys) if keys and rng.random() < 0.85 else rng.choice(KEYS)
            if rng.random() < 0.25:
                key = key.swapcase()
            alias = rep.key is not None and rng.random() < 0.3
            if alias or (rep.key is not None and rng.random() < (0.6 if rep.kconst else 0.25)):
                key = rep.key         # the name the replacement already goes by (its own pointer, or an equal string)
            old = self.lookup(p, key, cs)
            if alias:
                self.emit('repo_self %d %d %d' % (sp, self.handle(rep), 1 if cs else 0), ['1'] if old else ['0'])
            else:
                self.emit('%s %d %s %d' % ('repocs' if cs else 'repo', sp, hx(key), self.handle(rep)), ['1'] if old else ['0'])
            rep.key, rep.kconst = key, False      # the key is rewritten even when the lookup then fails
            self.last_mut = 'repo'
            if old is None:
                return
        idx = p.kids.index(old)
        p.kids[idx] = rep
        if rep in self.roots:
            self.roots.remove(rep)
        rep.parent = p
        old.parent = None
        self.forget_tree(old)

    def op_set(self):
        rng = self.rng
        r = rng.random()
        cands = [m for rt in self.roots if not self.is_frozen(rt) for m in self.owned_nodes(rt)]
        if not cands:
            return
        if r < 0.3:
            c = [m for m in cands if m.kind == 'n']
            if not c:
                return
            m = rng.choice(c)
            if rng.random() < 0.5:
                x = treegen.hostile_double(rng, True)
                self.emit('setnum %d %016x' % (self.handle(m), d2b(x)), ['%016x' % d2b(x)])
                m.bits, m.ival = d2b(x), sat_int(x)
            else:
                v = rng.choice([0, 1, -1, 42, 2147483647, -2147483648, rng.randrange(-10 ** 9, 10 ** 9)])
                self.emit('setint %d %d' % (self.handle(m), v), [str(v)])
                m.bits, m.ival = d2b(float(v)), v
            self.last_mut = 'setnum'
        elif r < 0.5:
            m = rng.choice(cands)
            bools = [x for x in cands if x.kind in 'tf']
            flagged = [x for x in bools if x.kconst or x.ref]
            if flagged and rng.random() < 0.5:
                m = rng.choice(flagged)       # the in-place edit must keep the ownership bits
            elif bools and rng.random() < 0.6:
                m = rng.choice(bools)
            v = rng.random() < 0.5
            if m.kind in 'tf':
                nk = 't' if v else 'f'
                ty = KIND_TYPE[nk]
                self.emit('setbool %d %d' % (self.handle(m), 1 if v else 0), [str(ty)])
                m.kind = nk
            else:
                self.emit('setbool %d %d' % (self.handle(m), 1 if v else 0), ['0'])
            self.last_mut = 'setbool'
        else:
            m = rng.choice(cands)
            sm = self.handle(m)
            if rng.random() < 0.15 and m.kind == 's' and not m.ref:
                self.emit('setstr_self %d %d' % (sm, rng.randrange(len(m.sval) + 1)), ['nil'])
                return
            if rng.random() < 0.1:
                self.emit('setstr %d ~' % sm, ['nil'])
                return
            cur = m.sval if m.kind == 's' else b''
            L = rng.choice([0, max(len(cur) - 1, 0), len(cur), len(cur) + 1, len(cur) + 7])
            b = bytes(rng.randrange(1, 256) for _ in range(L))
            ok = m.kind == 's' and not m.ref
            self.emit('setstr %d %s' % (sm, hx(b)), ['ok'] if ok else ['nil'])
            if ok:
                m.sval = b
            self.last_mut = 'setstr'

    def op_refusal(self):
        """calls the API documents as refused: nothing may change"""
        rng = self.rng
        c = self.pick_container(mutable=False)
        a = self.pick_container('a', mutable=False)
        item = self.pick_root(mutable=False)
        choices = []
        if c is not None and c.kids and rng.random() < 0.1:
            # replacing a child by itself is accepted and changes nothing
            ch = rng.choice(c.kids)
            sc = self.handle(c)
            sh = self.handle(ch)
            self.emit('repp %d %d %d' % (sc, sh, sh), ['1'])
            self.last_mut = 'refusal:repp-self'
            return
        if c is not None:
            n = len(c.kids)
            sc = self.handle(c)
            d = self.new_slot(None)
            choices += [('deta %d %d %d' % (sc, n, d), ['nil']), ('deta %d -1 %d' % (sc, d), ['nil']), ('deta %d %d %d' % (sc, n + 3, d), ['nil']),
                        ('deto %d %s %d' % (sc, hx(b'zz-missing'), d), ['nil']), ('detocs %d %s %d' % (sc, hx(b'zz-missing'), d), ['nil']),
                        ('deto %d ~ %d' % (sc, d), ['nil']), ('detp %d ~ %d' % (sc, d), ['nil']),
                        ('dela %d %d' % (sc, n), ['v']), ('dela %d -1' % sc, ['v']), ('delo %d %s' % (sc, hx(b'zz-missing')), ['v']), ('delocs %d ~' % sc, ['v']),
                        ('adda %d ~' % sc, ['0']), ('addo %d %s ~' % (sc, hx(b'a')), ['0']), ('addocs %d %s ~' % (sc, hx(b'a')), ['0']),
                        ('addrefa %d ~' % sc, ['0']), ('addrefo %d %s ~' % (sc, hx(b'a')), ['0']), ('ins %d -1 ~' % sc, ['0']), ('ins %d 0 ~' % sc, ['0']),
                        ('repa %d %d ~' % (sc, 0), ['0']), ('repa %d -1 ~' % sc, ['0']), ('repp %d ~ ~' % sc, ['0']), ('repo %d %s ~' % (sc, hx(b'a')), ['0']),
                        ('geta %d -1 %d' % (sc, d), ['nil']), ('geta %d %d %d' % (sc, n, d), ['nil']), ('geto %d ~ %d' % (sc, d), ['nil']),
                        ('hnull %d ~ %d' % (sc, d), ['nil']), ('hstr %d %s ~ %d' % (sc, hx(b'a'), d), ['nil']), ('hnum %d ~ %016x %d' % (sc, 0, d), ['nil']),
                        ('adda %d %d' % (sc, sc), ['0']), ('ins %d 0 %d' % (sc, sc), ['0']), ('ins %d %d %d' % (sc, n, sc), ['0'])]
            if c.kind == 'o':
                choices += [('addo %d %s %d' % (sc, hx(b'a'), sc), ['0']), ('addocs %d %s %d' % (sc, hx(b'a'), sc), ['0'])]
            if item is not None and item is not self.root_of(c):
                si = self.handle(item)
                choices += [('detp %d %d %d' % (sc, si, d), ['nil']), ('addo %d ~ %d' % (sc, si), ['0']), ('addocs %d ~ %d' % (sc, si), ['0']),
                            ('ins %d -1 %d' % (sc, si), ['0']), ('repa %d %d %d' % (sc, n, si), ['0']), ('repa %d -1 %d' % (sc, si), ['0']), ('repp %d ~ %d' % (sc, si), ['0'])]
            line, e = rng.choice(choices)
            self.emit(line, e)
            self.drop_slot(d)
            self.last_mut = 'refusal:' + line.split()[0]
        if item is not None and rng.random() < 0.5:
            si = self.handle(item)
            d = self.new_slot(None)
            line, e = rng.choice([('adda ~ %d' % si, ['0']), ('addo ~ %s %d' % (hx(b'a'), si), ['0']), ('ins ~ 0 %d' % si, ['0']), ('detp ~ %d %d' % (si, d), ['nil']),
                                  ('deta ~ 0 %d' % d, ['nil']), ('deto ~ %s %d' % (hx(b'a'), d), ['nil']), ('repp ~ %d %d' % (si, si), ['0']), ('repa ~ 0 %d' % si, ['0']),
                                  ('addrefa ~ %d' % si, ['0']), ('addrefo ~ %s %d' % (hx(b'a'), si), ['0']), ('size ~', ['0']), ('del ~', ['v']),
                                  ('setnum ~ %016x' % d2b(1.5), ['%016x' % d2b(1.5)]), ('setint ~ 7', ['7']), ('setbool ~ 1', ['0']), ('setstr ~ %s' % hx(b'x'), ['nil']),
                                  ('dup %d ~ 1' % d, ['nil']), ('cmp ~ %d 1' % si, ['0']), ('cmp %d ~ 1' % si, ['0']), ('is ~', ['0']), ('gsv ~', ['nil']), ('gnv ~', ['nan']),
                                  ('has ~ %s' % hx(b'a'), ['0']), ('geto ~ %s %d' % (hx(b'a'), d), ['nil']), ('cstr %d ~' % d, ['nil']), ('craw %d ~' % d, ['nil']),
                                  ('hnull ~ %s %d' % (hx(b'a'), d), ['nil']), ('parse %d 0 ~ 0' % d, ['nil']), ('print ~ 0', ['nil']), ('print ~ 1', ['nil']), ('print ~ 2 10 1', ['nil']),
                                  ('print %d 2 -1 1' % si, ['nil']), ('print %d 2 -2147483648 0' % si, ['nil']), ('parse %d 1 ~ 1' % d, ['nil']), ('parse %d 2 ~ 0' % d, ['nil']), ('parse %d 3 ~ 1' % d, ['nil'])])
            self.emit(line, e)
            self.drop_slot(d)

    def op_reference(self):
        """reference nodes: the tree that holds the referenced item stays frozen while a reference
        to it is alive.  The referenced item may be a root or any member inside that tree (its
        sibling links must not leak into the reference)."""
        rng = self.rng
        troots = [r for r in self.roots if not r.ref and r.parent is None]
        if not troots or rng.random() < 0.4:
            m = treegen.gen_tree(rng, maxdepth=2, distinct_keys=False)
            if m.kind not in 'ao':
                a = Node('a'); a.kids = [m]; m.parent = a; m = a
            s = self.new_slot(m)
            self.emit('build %d %s' % (s, to_tn(m)), ['p'])
            self.roots.append(m)
            fix_parents(m)
            troot = m
        else:
            troot = rng.choice(troots)
        cands = [n for n in self.owned_nodes(troot) if not n.ref]
        t = troot if rng.random() < 0.45 else rng.choice(cands)
        r = rng.random()
        if r < 0.55:
            c = self.pick_container(mutable=True)
            if c is None or self.root_of(c) is troot:
                return
            st = self.handle(t)
            ref = Node(t.kind, ref=True, bits=t.bits, ival=t.ival, sval=t.sval)
            ref.kids = t.kids
            ref.reft = troot
            sc = self.handle(c)
            if c.kind == 'a':
                self.emit('addrefa %d %d' % (sc, st), ['1'])
                ref.kconst = t.kconst      # create_reference copies the type bits; the flag is inert without a key
            else:
                key = rng.choice(KEYS)
                self.emit('addrefo %d %s %d' % (sc, hx(key), st), ['1'])
                ref.key = key
            ref.parent = c
            c.kids.append(ref)
            self.last_mut = 'addref' + ('' if t is troot else '-of-member')
        else:
            # cJSON_Create{Array,Object}Reference(item): the new container's child chain starts at
            # `item` and runs through item's following siblings
            par = t.parent
            view = [t] if par is None else par.kids[par.kids.index(t):]
            keyed = all(v.key is not None for v in view)
            kind = rng.choice('ao') if keyed else 'a'
            st = self.handle(t)
            ref = Node(kind, ref=True)
            ref.kids = list(view)
            ref.reft = troot
            d = self.new_slot(ref)
            self.emit('%s %d %d' % ('carrref' if kind == 'a' else 'cobjref', d, st), ['p'])
            self.roots.append(ref)
            self.last_mut = 'cref' + ('' if t is troot else '-of-member')
        self.frozen[troot.uid] = self.frozen.get(troot.uid, 0) + 1

    # ---- queries ----
    def op_queries(self):
        rng = self.rng
        c = self.pick_container(mutable=False)
        if c is None:
            return
        sc = self.handle(c)
        n = len(c.kids)
        self.emit('size %d' % sc, [str(n)])
        h = 0
        for i in range(n):
            h = (h * 31 + i) & 0xffffffff
        self.emit('iter %d' % sc, [str(n), '%08x' % h])
        d = self.new_slot(None)
        for idx in range(-1, n + 1):
            self.emit('geta %d %d %d' % (sc, idx, d), [str(idx)] if 0 <= idx < n else ['nil'])
        keys = {k.key for k in c.kids if k.key is not None} | set(rng.sample(KEYS, 3))
        for key in sorted(keys):
            for kk in {key, key.swapcase(), key.upper()}:
                ci = self.lookup(c, kk, False)
                cs = self.lookup(c, kk, True)
                self.emit('geto %d %s %d' % (sc, hx(kk), d), [str(c.kids.index(ci))] if ci else ['nil'])
                self.emit('getocs %d %s %d' % (sc, hx(kk), d), [str(c.kids.index(cs))] if cs else ['nil'])
                self.emit('has %d %s' % (sc, hx(kk)), ['1' if ci else '0'])
        self.drop_slot(d)
        nodes = self.owned_nodes(self.root_of(c))
        m = rng.choice(nodes)
        sm = self.handle(m)
        if m.kind not in 'ao':
            # size / index / key queries on an item that is not a container
            d2 = self.new_slot(None)
            self.emit('size %d' % sm, ['0'])
            self.emit('geta %d 0 %d' % (sm, d2), ['nil'])
            self.emit('geto %d %s %d' % (sm, hx(b'a'), d2), ['nil'])
            self.emit('getocs %d %s %d' % (sm, hx(b'a'), d2), ['nil'])
            self.emit('has %d %s' % (sm, hx(b'a')), ['0'])
            self.drop_slot(d2)
        mask = {'f': 2 | 8, 't': 4 | 8, 'z': 16, 'n': 32, 's': 64, 'a': 128, 'o': 256, 'w': 512}[m.kind]
        self.emit('is %d' % sm, [str(mask)])
        self.emit('gsv %d' % sm, [hx(m.sval)] if m.kind == 's' else ['nil'])
        if m.kind == 'n':
            x = m.dbl
            self.emit('gnv %d' % sm, ['nan'] if x != x else ['%016x' % m.bits])
        else:
            self.emit('gnv %d' % sm, ['nan'])

    # ---- whole-tree calls (C07 / C11 / C14 programs) ----
    def op_print(self):
        r = self.pick_root(mutable=False)
        if r is None:
            return
        s = self.handle(r)
        v = self.rng.choice([0, 1, 2, 3])
        if v == 2:
            self.emit('print %d 2 %d %d' % (s, self.rng.choice([0, 1, 5, 64, 300]), self.rng.randrange(2)), None)
        elif v == 3:
            self.emit('print %d 3 %d %d' % (s, self.rng.choice([0, 1, 16, 4000]), self.rng.randrange(2)), None)
        else:
            self.emit('print %d %d' % (s, v), None)

    def op_dup(self):
        rng = self.rng
        cands = [m for rt in self.roots for m in self.owned_nodes(rt)]
        if not cands:
            return
        m = rng.choice(cands)
        rec = rng.random() < 0.7
        d = self.new_slot(None)
        self.emit('dup %d %d %d' % (d, self.handle(m), 1 if rec else 0), ['p'])
        c = dup_model(m, rec)
        self.slots[d] = c
        self.roots.append(c)

    def op_cmp(self):
        a = self.pick_root(mutable=False)
        b = self.pick_root(mutable=False)
        if a is None or b is None:
            return
        self.emit('cmp %d %d %d' % (self.handle(a), self.handle(b), self.rng.randrange(2)), None)

    def finish(self):
        """delete every remaining root; references first so that their targets are unfrozen"""
        guard = 0
        while self.roots and guard < 10000:
            guard += 1
            r = None
            for x in self.roots:
                if not self.is_frozen(x):
                    r = x
                    break
            if r is None:
                raise RuntimeError('model: only frozen roots left')
            s = self.handle(r)
            self.emit('del %d' % s, ['v'])
            self.forget_tree(r)
            self.drop_slot(s)
            self.check_all()


def getattr_ref(m):
    return m.reft


def fix_parents(root):
    st = [root]
    while st:
        m = st.pop()
        if m.kids and not m.ref:
            for k in m.kids:
                k.parent = m
                st.append(k)


def dup_model(m, recurse):
    """cJSON_Duplicate on the model: reference bit cleared, constant keys stay constant"""
    n = Node(m.kind, m.key, m.kconst, False, m.bits, m.ival, m.sval)
    if m.kids is not None:
        n.kids = []
        if recurse:
            for k in m.kids:
                c = dup_model(k, True)
                c.parent = n
                n.kids.append(c)
    return n
