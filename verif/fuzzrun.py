"""libFuzzer sessions (thorough tier of C01, C10, C13): coverage-guided inputs through the reduced
in-process oracles of driver/cjv_fuzz.c, bounded by -runs (never by time)."""
import os
import re
import subprocess
from . import corpus, jsonref
from .runner import ShardOut, Violation, REPO, owners_of, classify_sanitizer, HarnessFailure


def seed_corpus(d, rng):
    os.makedirs(d, exist_ok=True)
    n = 0
    texts = corpus.shape_corpus()[::7] + corpus.repo_inputs()[:60]
    for _ in range(100):
        texts.append(jsonref.gen_text(rng, maxdepth=4)[0])
    for t in texts:
        for mode in (0, 3, 4):
            with open(os.path.join(d, 's%05d' % n), 'wb') as f:
                f.write(bytes([mode]) + t[:4000])
            n += 1
    return n


def run_fuzz(prop, binary, workdir, seed, runs, rng):
    out = ShardOut()
    cdir = os.path.join(workdir, 'fuzz-corpus-%d' % seed)
    adir = os.path.join(workdir, 'fuzz-art-%d/' % seed)
    os.makedirs(adir, exist_ok=True)
    nseed = seed_corpus(cdir, rng)
    env = dict(os.environ)
    env['ASAN_OPTIONS'] = 'abort_on_error=1:detect_leaks=0:allocator_may_return_null=1:quarantine_size_mb=8'
    env['UBSAN_OPTIONS'] = 'print_stacktrace=1:halt_on_error=1'
    if seed % 2:
        env['CJV_FUZZ_DEFAULT_ALLOC'] = '1'
    cmd = [binary, '-runs=%d' % runs, '-seed=%d' % seed, '-max_len=3000', '-timeout=60', '-rss_limit_mb=4096', '-artifact_prefix=' + adir,
           '-print_final_stats=1', '-dict=' + os.path.join(REPO, 'fuzzing', 'json.dict'), cdir]
    r = subprocess.run(cmd, stdout=subprocess.DEVNULL, stderr=subprocess.PIPE, env=env)
    err = r.stderr.decode(errors='replace')
    m = re.search(r'stat::number_of_executed_units:\s*(\d+)', err)
    execs = int(m.group(1)) if m else 0
    cov = re.findall(r'cov: (\d+)', err)
    out.evals += execs
    out.count('fuzz_execs', execs)
    out.stats['fuzz_cov_edges_max'] = int(cov[-1]) if cov else 0
    out.count('fuzz_sessions')
    out.count('fuzz_seed_inputs', nseed)
    newc = len(os.listdir(cdir)) - nseed
    out.count('fuzz_new_corpus_units', max(newc, 0))
    if r.returncode != 0:
        art = b''
        for f in sorted(os.listdir(adir)):
            art = open(os.path.join(adir, f), 'rb').read()
            break
        m = re.search(r'CJV-VIOLATION (\S+) ?([^\n]*)', err)
        if m:
            key, det = m.group(1), m.group(2)
        else:
            key, det = classify_sanitizer(err)
            if key is None:
                t = re.search(r'ERROR: libFuzzer: ([a-z -]+)', err)
                key = 'fuzz/' + (t.group(1).strip().replace(' ', '-') if t else 'exit-%d' % r.returncode)
                det = err[-600:]
        own = owners_of(key)
        if own is None or prop in own:
            out.vios.append(Violation(prop, key, 'libFuzzer session seed=%d: %s' % (seed, det[:400]),
                                      {'fuzz_input_hex': art[:4000].hex(), 'how': 'driver/build.sh fuzz <dir>; <dir>/cjv_fuzz <file with these bytes>', 'stderr_tail': err[-1500:]}))
        else:
            out.count('fuzz_findings_owned_by_other_property')
    if execs == 0 and r.returncode == 0:
        raise HarnessFailure('fuzzer executed nothing: ' + err[-500:])
    out.seen('fuzz', seed)
    for i in range(min(newc, 50)):
        out.seen('fuzz', seed, i)
        out.count('nontrivial')
    out.count('nontrivial')
    return out
