"""C04, C05, C09 - the printer properties, all driven through the print battery (`prbat`)."""
import math
import random
import re
from . import jsonref, treegen
from .runner import ShardOut, Violation, run_batch, mechanical_violations, case_witness, REPO, SEED, HarnessFailure
from .tn import Node, to_tn, hx, INT_MAX, INT_MIN

_int_re = re.compile(rb'-?(0|[1-9][0-9]*)')


def plan(prop, tier):
    q = tier == 'quick'
    flavours = ['asan', 'plain'] if q else ['asan', 'plain', 'msan', 'efence']
    shards = []
    n = 16 if q else 64
    per = {'C04': 1200, 'C05': 1500, 'C09': 160}[prop] if q else {'C04': 20000, 'C05': 20000, 'C09': 4000}[prop]
    for i in range(n):
        shards.append(('trees', SEED * 1000 + i, per))
    shards.append(('directed', 0, 0))
    return flavours, shards


def values_match(model, dec, path='$'):
    """model Node vs strictly decoded Node -> None or description"""
    stack = [(model, dec, path)]
    while stack:
        m, d, p = stack.pop()
        if m.kind == 'n':
            x = m.dbl
            if x != x or math.isinf(x):
                if d.kind != 'z':
                    return '%s: non-finite number printed as %s, not null' % (p, d.kind)
                continue
            if d.kind != 'n':
                return '%s: number printed as %s' % (p, d.kind)
            y = d.dbl
            if x == math.floor(x) and INT_MIN <= x <= INT_MAX:
                lit = d.sval
                if not _int_re.fullmatch(lit) or int(lit) != int(x):
                    return '%s: integer-valued %r printed as %r' % (p, x, lit)
            if x != y:
                if abs(x) < 1e15 and x == math.floor(x):
                    return '%s: integer %r printed as %r' % (p, x, d.sval)
                if not abs(x - y) <= max(abs(x), abs(y)) * 2.0 ** -52:
                    return '%s: number %r printed as %r' % (p, x, d.sval)
            continue
        if m.kind != d.kind:
            return '%s: kind %s printed as %s' % (p, m.kind, d.kind)
        if m.kind == 's':
            if m.sval != d.sval:
                return '%s: string %r printed as %r' % (p, m.sval[:40], d.sval[:40])
        elif m.kind in 'ao':
            if len(m.kids) != len(d.kids):
                return '%s: %d children printed as %d' % (p, len(m.kids), len(d.kids))
            for i, (a, b) in enumerate(zip(m.kids, d.kids)):
                if m.kind == 'o' and a.key != b.key:
                    return '%s: key %r printed as %r' % (p, a.key, b.key)
                stack.append((a, b, '%s/%d' % (p, i)))
    return None


def _wrap(inner, kind):
    o = Node(kind)
    if kind == 'o':
        inner.key = b'a'
    o.kids = [inner]
    return o


def run_shard(shard_prop, bins, workdir, tier):
    prop, (kind, seed, count) = shard_prop
    out = ShardOut()
    thorough = tier == 'thorough'
    rng = random.Random('%s-%s-%s' % (prop, kind, seed))
    lim = jsonref.nesting_limit(REPO)
    trees = []   # (ops to make slot 1, model or None, mode, label)
    if kind == 'trees':
        for i in range(count):
            r = rng.random()
            if prop == 'C04' and r < 0.35:
                # tree from the parser (including lenient spellings it accepts)
                t, v = jsonref.gen_text(rng, maxdepth=rng.choice([2, 3, 5]))
                if b'\\u0000' in t.lower():
                    continue
                mode = 1 if treegen.has_nonfinite(v) else 0
                trees.append((['parse 1 2 %s 0' % hx(t)], v, mode, 'parsed'))
                continue
            valid = prop == 'C05' or rng.random() < 0.3
            finite = prop == 'C04'
            m = treegen.gen_tree(rng, maxdepth=rng.choice([1, 2, 3, 4, 6]), valid_utf8=valid, finite=finite if prop != 'C09' else rng.random() < 0.8, const_keys=rng.random() < 0.3)
            if rng.random() < 0.25:
                # ownership flags must not change the text: string / scalar / container members attached by reference
                st = [m]
                while st:
                    q = st.pop()
                    for k in (q.kids or []):
                        if rng.random() < 0.2:
                            k.ref = True
                        else:
                            st.append(k)
            mode = 1 if treegen.has_nonfinite(m) else 0
            trees.append((['build 1 ' + to_tn(m)], m, mode, 'built'))
    else:
        for m in treegen.ending_shapes():
            mode = 1 if treegen.has_nonfinite(m) else 0
            if prop == 'C04' and mode:
                continue
            trees.append((['build 1 ' + to_tn(m)], m, mode, 'ending-shape'))
        # depth up to the nesting limit (formatted closings indent by depth)
        for k in (10, lim // 2, lim - 1, lim):
            for kindc in 'ao':
                cur = Node.num(1.0)
                for _ in range(k):
                    o = Node(kindc)
                    if kindc == 'o':
                        cur.key = b'd'
                    o.kids = [cur]
                    cur = o
                trees.append((['build 1 ' + to_tn(cur)], cur, 0, 'deep-%d' % k))
        # breadth must not count as depth when the text is parsed back: many sibling containers
        for n in (lim + 1, 2 * lim + 7):
            for mk_elem in (lambda: Node('a'), lambda: Node('o'), lambda: _wrap(Node('a'), 'a'), lambda: _wrap(Node('a'), 'o'), lambda: _wrap(Node('o'), 'o')):
                a = Node('a')
                a.kids = [mk_elem() for _ in range(n)]
                trees.append((['build 1 ' + to_tn(a)], a, 0, 'wide-%d' % n))
            o = Node('o')
            o.kids = [Node('a', key=b'k%d' % i) for i in range(n)]
            trees.append((['build 1 ' + to_tn(o)], o, 0, 'wide-%d' % n))
        # strings around the printer's default buffer size; long keys
        for L in (253, 254, 255, 256, 257, 258, 510, 511, 512, 513, 1023, 1024, 1025, 5000):
            trees.append((['build 1 ' + to_tn(Node.string(b'x' * L))], Node.string(b'x' * L), 0, 'len-%d' % L))
            trees.append((['build 1 ' + to_tn(Node.string(b'\x01' * (L // 6)))], Node.string(b'\x01' * (L // 6)), 0, 'esc-%d' % L))
            o = Node('o')
            o.kids = [Node('t', key=b'k' * L)]
            trees.append((['build 1 ' + to_tn(o)], o, 0, 'key-%d' % L))
        # many small members: growth happens between tokens
        a = Node('a')
        a.kids = [Node.num(float(i)) for i in range(300)]
        trees.append((['build 1 ' + to_tn(a)], a, 0, 'many'))

    if kind != 'trees' and prop == 'C09':
        # items the printer has a dedicated branch for: a string without text and a member without
        # key print as "" (the trees are odd, but printing them must respect the buffer all the same)
        trees.append((['carr 1', 'cstrref 2 ~', 'adda 1 2', 'cnum 3 3ff0000000000000', 'adda 1 3'], None, 2, 'null-text'))
        trees.append((['cstrref 1 ~'], None, 2, 'null-text'))
        trees.append((['cobj 1', 'cnum 2 4000000000000000', 'adda 1 2', 'ctrue 3', 'addo 1 =6b 3'], None, 2, 'null-key'))
        trees.append((['cobj 1', 'cobj 2', 'adda 1 2', 'cstrref 3 ~', 'adda 2 3'], None, 2, 'null-key'))
    cfgs = ['default', 'custom'] if prop in ('C04', 'C05') else ['default']
    cases = []
    meta = {}
    cid = 0
    for ti, (mk, model, mode, label) in enumerate(trees):
        big = label.startswith(('deep-', 'wide-')) or label in ('len-5000', 'key-5000')
        for cfg in cfgs:
            loc = (cid % 5 == 3) and not big
            ops = list(mk) + (['setloc 1'] if loc else []) + ['prbat 1 %d' % (mode | (4 if (thorough and not big) else 0) | (0 if prop == 'C09' else 8)), 'del 1'] + (['setloc 0'] if loc else [])
            cases.append((cid, cfg, ops))
            meta[cid] = (ti, cfg)
            cid += 1

    texts = {}   # (ti, fl) -> {cfg: (u, f)}
    for fl, binary in bins.items():
        by_id = {c[0]: (c[1], c[2]) for c in cases}
        wit = case_witness(by_id, fl, thorough)
        # the slow flavours (one mapping per allocation, -O0 + gcov, MSan) see every fourth case of the
        # random shards in the thorough tier; the directed shard runs everywhere in full
        sub = cases
        if thorough and kind == 'trees' and fl in ('efence', 'cov', 'msan'):
            sub = [c for c in cases if (c[0] // len(cfgs)) % 4 == 0]
        logs = run_batch(binary, fl, sub, workdir, '%s-%s-%s' % (prop, kind, seed), thorough)
        for cid, (ti, cfg) in meta.items():
            if cid not in logs:
                continue
            cl = logs[cid]
            mk, model, mode, label = trees[ti]
            out.vios += mechanical_violations(prop, cl, wit)
            if cl.died:
                continue
            if cl.end and cl.end.get('live') != '0':
                out.vios.append(Violation(prop, 'leak/after-delete', '%s blocks live after build/print/delete' % cl.end.get('live'), wit(cl, 2)))
            f = next((v for _i, v in sorted(cl.ops.items()) if v and v[0] == 'prbat'), None)
            if any(v[:2] == ['setloc', 'comma'] for v in cl.ops.values()) and fl == sorted(bins)[0]:
                out.count('printed_under_comma_locale')
            if not f or f[0] != 'prbat' or len(f) < 5:
                if cl.ops.get(0) and cl.ops[0][0] == 'nil' and label == 'parsed':
                    continue   # text not accepted by the parser: nothing to print
                out.vios.append(Violation(prop, 'print/no-result', 'print battery did not produce text: %s' % f, wit(cl, 1)))
                continue
            kv = dict(x.split('=', 1) for x in f[1:])
            u = bytes.fromhex(kv['u'])
            ftxt = bytes.fromhex(kv['f'])
            out.evals += 1
            if fl == sorted(bins)[0] and cfg == cfgs[0]:
                out.seen(u)
                if len(u) > 2:
                    out.count('nontrivial')
                out.count('class:' + label.split('-')[0])
                out.count('prealloc_lengths_tried', 2 * (min(len(u), 1600) + min(len(ftxt), 1600)) // 2 + 36)
                if cid % 53 == 5 and len(u) < 70:
                    out.sample({'tree': to_tn(model)[:120] if model is not None else label, 'unformatted': u.decode('latin-1'), 'first_n_that_succeeds': [int(kv['ok0']), int(kv['ok1'])], 'text_len': [len(u), len(ftxt)]})
            texts.setdefault((ti, fl), {})[cfg] = (u, ftxt)
            if prop == 'C09':
                for fmt, t in ((0, u), (1, ftxt)):
                    ok = int(kv['ok%d' % fmt])
                    if ok < 0 or ok > len(t) + 1 + 5:
                        out.vios.append(Violation(prop, 'C09/never-succeeds', 'fmt=%d text length %d: first successful n is %d' % (fmt, len(t), ok), wit(cl, 1)))
                    elif ok < len(t) + 1:
                        out.vios.append(Violation(prop, 'C09/succeeds-too-small', 'fmt=%d text length %d succeeded with n=%d' % (fmt, len(t), ok), wit(cl, 1)))
            if prop == 'C05':
                # strict JSON, same value, formatted == unformatted modulo whitespace
                valid_utf8 = True
                try:
                    u.decode('utf-8')
                except UnicodeDecodeError:
                    valid_utf8 = False
                if valid_utf8:
                    try:
                        dec = jsonref.strict_decode(u)
                        why = values_match(model, dec)
                        if why:
                            out.vios.append(Violation(prop, 'C05/value/' + why.split(': ')[1].split(' ')[0], why + ' text=%r' % u[:120], wit(cl, 1)))
                        dec2 = jsonref.strict_decode(ftxt)
                        why = values_match(model, dec2)
                        if why:
                            out.vios.append(Violation(prop, 'C05/value-formatted', why, wit(cl, 1)))
                    except jsonref.StrictError as e:
                        out.vios.append(Violation(prop, 'C05/not-strict-json', '%s: %r' % (e, u[:120]), wit(cl, 1)))
                    out.count('strict_decoded')
                if jsonref.strip_ws_outside_strings(ftxt) != u:
                    out.vios.append(Violation(prop, 'C05/format/not-whitespace-only', 'formatted text minus whitespace differs from unformatted: %r vs %r' % (ftxt[:100], u[:100]), wit(cl, 1)))
    # same bytes whether or not the allocator offers realloc (default vs custom hooks)
    if len(cfgs) > 1:
        for (ti, fl), d in texts.items():
            if len(d) == 2 and d['default'] != d['custom']:
                out.vios.append(Violation(prop, '%s/config/realloc-dependent' % prop, 'text differs between default allocator and custom hooks: %r vs %r' % (d['default'][0][:80], d['custom'][0][:80]),
                                          {'flavour': fl, 'tree': to_tn(trees[ti][1])[:2000]}))
    return out


def finish(prop, tier, results):
    tot = ShardOut()
    for r in results:
        tot.merge(r)
    cov = {
        'evaluations': tot.evals,
        'distinct_nontrivial': min(len(tot.distinct), tot.stats.get('nontrivial', 0)),
        'rule': {
            'C04': 'trees from the parser (generated texts) and from the construction API (random shapes, byte strings 1..255, hostile doubles incl. the last ulps below DBL_MAX, depth to the nesting limit); each printed by Print/PrintUnformatted, PrintBuffered with 15+ prebuffer sizes per format, PrintPreallocated for every length, re-parsed and compared node by node with the stated tolerances, re-printed (fixed point); default allocator and custom hooks; distinct = distinct unformatted texts longer than 2 bytes',
            'C05': 'construction-API trees with valid UTF-8 strings and finite or non-finite numbers; unformatted and formatted text decoded by an independent strict RFC 8259 decoder and compared with the model value; whitespace-stripped formatted text must equal the unformatted text; integer clause by regex; distinct = distinct unformatted texts longer than 2 bytes',
            'C09': 'trees whose text ends in every token kind / number path / closing layout plus random trees; for each tree and both formats EVERY buffer length n from 0 to len+16 (sampled in the middle only beyond 1500 bytes), buffer of exactly n bytes against a guard page (both placements, canary bytes on the far side) and as an exact-size heap block under ASan; distinct = distinct unformatted texts longer than 2 bytes',
        }[prop],
        'samples': tot.samples[:8],
        'classes': {k[6:]: v for k, v in sorted(tot.stats.items()) if k.startswith('class:')},
        'print_batteries_run': tot.evals,
    }
    for k in ('prealloc_lengths_tried', 'strict_decoded', 'printed_under_comma_locale'):
        if k in tot.stats:
            cov[k] = tot.stats[k]
    if prop == 'C09':
        cov['exhaustive'] = False
    inc = None
    if tot.evals == 0:
        inc = 'nothing was evaluated'
    return tot.vios, cov, inc
