"""Directed corpora of byte strings for the parser properties (C01, C03, C10) and Minify (C13)."""
import os
import glob

from . import jsonref
from .runner import REPO

BOM = b'\xef\xbb\xbf'


def token_shapes():
    S = [b'null', b'true', b'false', b'nul', b'tru', b'fals', b'NULL', b'True', b'nulll', b'truefalse']
    for sign in ('', '-'):
        for ip in ('0', '7', '123', '01'):
            for fr in ('', '.5', '.', '.000'):
                for ex in ('', 'e5', 'E+5', 'e-5', 'e', 'e+', 'e400', 'e-400'):
                    S.append((sign + ip + fr + ex).encode())
    S += [b'-', b'--1', b'+1', b'.5', b'-.5', b'1.5.3', b'1e5e3', b'1-2', b'0x10', b'1e', b'-e', b'-a', b'Infinity', b'NaN', b'-inf']
    for L in (61, 62, 63, 64, 65, 100, 200):
        S.append(b'1' * L)
        S.append(b'0.' + b'3' * (L - 2))
        S.append(b'-' + b'9' * (L - 1))
        S.append(b'1e' + b'0' * (L - 3) + b'5')
    bodies = [b'', b'a', b'abc def', b'\\"', b'\\\\', b'\\/', b'\\b', b'\\f', b'\\n', b'\\r', b'\\t', b'\\u0041', b'\\u00e9',
              b'\\u20AC', b'\\uFFFF', b'\\ud83d\\ude00', b'\\uD800\\uDC00', b'\\uDBFF\\uDFFF', b'\\ud800', b'\\udc00',
              b'\\udc00\\ud800', b'\\ud800\\u0041', b'\\ud800\\ud800', b'\\ud800x', b'\\ud800\\n', b'\\u', b'\\u1', b'\\u12',
              b'\\u123', b'\\uZZZZ', b'\\u12G4', b'\\uG123', b'\\u1G23', b'\\u123G', b'\\x', b'\\a', b'\\0', b'\\U0041',
              b'\x01', b'\x1f', b'\x7f', b'\xc3\xa9', b'\xe2\x82\xac', b'\xf0\x9f\x98\x80', b'\xff', b'\xc3', b'\x80',
              b'a\\', b'\\u0000', b'\\ud83d\\', b'\\ud83d\\u', b'\\ud83d\\ude', b'\\ud83d\\ude0', b'\\ud83d\\udX00',
              b'\t', b'\n', b'a\\"b', b'a\\\\', b'\\\\\\"', b'//', b'/*x*/']
    for b in bodies:
        S.append(b'"' + b + b'"')
    S += [b"'a'", b'"', b'"a', b'"\\', b'"\\u00', b'"\\ud800\\udc0']
    # several (incomplete) escapes in one literal: size estimates are made per escape
    for e in (b'\\u', b'\\u1', b'\\u12', b'\\u123', b'\\ud800', b'\\', b'\\uD83D\\u', b'\\u0041', b'\\n', b'\\x'):
        for k in (2, 3, 4, 8):
            S.append(b'"AAAA' + e * k + b'"')
            S.append(b'"' + e * k + b'AAAA"')
    # long runs of number characters that do not start a number / are not numbers at all
    for c in (b'e', b'E', b'+', b'-', b'.', b'e+', b'-.', b'.e'):
        for L in (62, 63, 64, 70, 130):
            S.append(b'-' + (c * L)[:L])
            S.append(b'1' + (c * L)[:L])
            S.append(b'0' * 5 + (c * L)[:L] + b'1')
    S += [b'[]', b'{}', b'[1]', b'[1,2]', b'[1 ,2 ]', b'{"a":1}', b'{"a":1,"b":[true,null]}', b'[[]]', b'[{}]', b'{"a":{}}',
          b' [ 1 , 2 ] ', b'{ "a" : 1 }', b'[1,]', b'[,]', b'[,1]', b'[1,,2]', b'[1 2]', b'{"a"}', b'{"a":}', b'{,}', b'{"a":1,}',
          b'{"a":1 "b":2}', b'{"a"::1}', b'{"a" 1}', b'{a:1}', b'{1:2}', b'{null:1}', b'{[]:1}', b'{"a":1}}', b'[1]]', b'[1}',
          b'{"a":1]', b'[', b'{', b']', b'}', b',', b':', b'[[', b'{"a":[', b'{"a":{"b":', b'[1,2', b'{"a":1,"b"', b'[null,true,false]',
          b'{"":0}', b'{"a":1,"a":2}', b'[1.5e3,-0,"x"]', b'{"k":"v","k2":[1,{"z":null}]}', b'\t\n\r [\t1\n,\r2 ]\t', b'\x0b1', b'\x001',
          b'1 2', b'1,2', b'[1]x', b'{}{}', b'null null', b'"a""b"', b'1\x00', b'[1,\x002]', b'1 \x00 ', b'1\x00x']
    return S


def wrappers():
    return [lambda x: x, lambda x: b'[' + x + b']', lambda x: b'{"k":' + x + b'}', lambda x: b'[1,' + x + b',2]',
            lambda x: b'[[' + x + b']]', lambda x: b'{"a":[' + x + b']}', lambda x: b' ' + x + b' ', lambda x: BOM + x,
            lambda x: BOM + b' ' + x + b'\n', lambda x: b'{"a":1,"b":' + x + b',"c":2}']


def all_prefixes(texts):
    seen = set()
    out = []
    for t in texts:
        for n in range(len(t) + 1):
            p = t[:n]
            if p not in seen:
                seen.add(p)
                out.append(p)
    return out


def shape_corpus():
    shapes = token_shapes()
    texts = []
    for w in wrappers():
        for s in shapes:
            texts.append(w(s))
    return texts


def repo_inputs():
    out = []
    for pat in ('tests/inputs/*', 'fuzzing/inputs/*'):
        for p in sorted(glob.glob(os.path.join(REPO, pat))):
            if os.path.isfile(p) and not p.endswith('.expected'):
                try:
                    out.append(open(p, 'rb').read())
                except OSError:
                    pass
    # the library's fuzzing corpus has a 2-byte option header in front of the JSON text
    return out


def dict_tokens():
    toks = [b'{', b'}', b'[', b']', b',', b':', b'"', b'\\', b'\\u', b'\\ud800', b'\\udc00', b'null', b'true', b'false', b'1e', b'-',
            b'.', b'\x00', b' ', b'\xef\xbb\xbf', b'/*', b'*/', b'//', b'\n', b'0', b'9' * 70, b'"' * 2, b'[' * 50, b'{"a":' * 20]
    p = os.path.join(REPO, 'fuzzing', 'json.dict')
    if os.path.exists(p):
        for line in open(p, 'rb'):
            line = line.strip()
            if line.startswith(b'#') or b'"' not in line:
                continue
            s = line[line.index(b'"') + 1:line.rindex(b'"')]
            try:
                s = s.decode('unicode_escape').encode('latin-1')
            except Exception:
                continue
            if s:
                toks.append(s)
    return toks


def mutate(rng, base, toks):
    b = bytearray(base)
    for _ in range(rng.choice([1, 1, 1, 2, 3, 5])):
        op = rng.randrange(7)
        pos = rng.randrange(len(b) + 1)
        if op == 0 and b:
            b[pos % len(b)] ^= 1 << rng.randrange(8)
        elif op == 1 and b:
            del b[pos % len(b)]
        elif op == 2:
            b[pos:pos] = rng.choice(toks)
        elif op == 3 and b:
            a = pos % len(b)
            ln = rng.randrange(1, 16)
            b[pos:pos] = b[a:a + ln]
        elif op == 4 and b:
            b[pos % len(b)] = rng.choice(b'{}[],:"\\ \x00e.-0123456789tfnu/*')
        elif op == 5 and b:
            del b[pos % len(b):]
        else:
            b[pos:pos] = bytes([rng.randrange(256)])
    return bytes(b)


STRUCT = b'{}[],:"\\ \t\n0123456789.-+eEtruefalsn\x00/*u\xef\xbb\xbf\x7f\x80\xff'


def random_bytes(rng):
    n = rng.choice([0, 1, 2, 3, 5, 8, 13, 21, 40, 80, 200])
    if rng.random() < 0.8:
        return bytes(rng.choice(STRUCT) for _ in range(n))
    return bytes(rng.randrange(256) for _ in range(n))


def nest_shapes(limit):
    """(description, case-file bytes token, total length) for deep / unbalanced nesting"""
    out = []

    def rep(k, a, m, b):
        return '*%d:%s:%s:%s' % (k, a.hex(), m.hex(), b.hex())
    for k in (limit - 1, limit, limit + 1, limit + 2, 10 * limit, 100 * limit, 1000 * limit):
        out.append(('[^%d balanced' % k, rep(k, b'[', b'', b']'), k, k <= limit))
        out.append(('[^%d open' % k, rep(k, b'[', b'', b''), k, False))
        out.append(('{"a":^%d balanced' % k, rep(k, b'{"a":', b'1', b'}'), k, k <= limit))
        out.append(('{"a":^%d open' % k, rep(k, b'{"a":', b'', b''), k, False))
        if k <= 100 * limit:
            out.append(('[{"a":^%d alternating' % k, rep(k, b'[{"a":', b'0', b'}]'), 2 * k, 2 * k <= limit))
    return out
