"""C06, C07, C11, C14, C19 - op-programs generated against the list/map model (R4)."""
import random
import re
from . import jsonref, treegen
from .model import World, dup_model, fix_parents, fold, KEYS
from .runner import ShardOut, Violation, run_batch, mechanical_violations, case_witness, REPO, SEED, HarnessFailure
from .tn import Node, to_tn, tn_crc, from_tn, hx, crc_of

CFGS_ALL = ['default', 'defaultnull', 'custom', 'arena', 'onlymalloc', 'onlyfree']


def plan(prop, tier):
    q = tier == 'quick'
    flavours = ['asan', 'plain', 'efence']
    n = 16 if q else 64
    per = {'C06': 260, 'C07': 260, 'C11': 220, 'C14': 120, 'C19': 500}[prop] if q else {'C06': 6000, 'C07': 6000, 'C11': 5000, 'C14': 2500, 'C19': 12000}[prop]
    shards = [('prog', SEED * 1000 + i, per) for i in range(n)]
    if prop in ('C11', 'C07'):
        shards.append(('deep', 0, 0))     # refused duplicates of over-deep / cyclic structures must not leak either
    if prop == 'C07':
        # histories in which the allocator refuses a request: whatever the call answers, nothing may be lost
        for i in range(2 if q else 8):
            shards.append(('faultleak', SEED * 1000 + 700 + i, 1 if q else 6))
    if prop == 'C07':
        shards.append(('parseledger', 0, 0))
    if prop == 'C19':
        shards.append(('widesort', 0, 0))
    if prop == 'C14':
        # allocation failures under every hook configuration: failure paths release memory too
        for i in range(4 if q else 16):
            shards.append(('faultcfg', SEED * 1000 + 500 + i, 1 if q else 6))
    return flavours, shards


# ---------------------------------------------------------------------------------------------
# program generation

WEIGHTS = {
    #        add helper insert detach delchild delroot replace set refusal reference queries print dup cmp parse bulk
    'C06': [18, 6, 10, 12, 6, 3, 12, 8, 8, 5, 6, 1, 2, 0, 1, 2],
    'C07': [16, 5, 8, 10, 6, 4, 14, 6, 3, 8, 1, 6, 6, 3, 3, 2],
    'C11': [16, 5, 8, 10, 6, 3, 10, 8, 1, 6, 1, 2, 2, 1, 1, 2],
    'C14': [14, 6, 6, 8, 5, 4, 10, 8, 2, 4, 1, 10, 6, 3, 5, 4],
}
OPS = ['op_add', 'op_helper', 'op_insert', 'op_detach', 'op_delete_child', 'op_delete_root', 'op_replace', 'op_set', 'op_refusal',
       'op_reference', 'op_queries', 'op_print', 'op_dup', 'op_cmp', 'mk_parsed', 'mk_bulk']


class Prog:
    def __init__(self):
        self.ops = []
        self.exp = []
        self.names = []
        self.muts = []
        self.tns = {}


def gen_program(rng, prop, steps):
    w = World(rng)
    w.muts = []
    tns = {}
    weights = WEIGHTS.get(prop, WEIGHTS['C06'])
    dupx_at = rng.randrange(steps // 3, steps) if prop == 'C11' else -1

    def sync():
        while len(w.muts) < len(w.ops):
            w.muts.append(w.last_mut)

    for step in range(steps):
        if len(w.roots) > 5:
            w.op_delete_root()
        elif step == dupx_at or (prop == 'C11' and step > dupx_at and rng.random() < 0.03):
            r = w.pick_root(mutable=False)
            if r is not None:
                d = w.new_slot(None)
                mode = 0 if treegen.comparable(r) else 1
                w.emit('dupx %d %d %d' % (d, w.handle(r), mode), ['dupx', 'p'])
                c = dup_model(r, True)
                fix_parents(c)
                w.slots[d] = c
                w.roots.append(c)
                w.last_mut = 'dupx'
        else:
            name = rng.choices(OPS, weights)[0]
            getattr(w, name)()
        sync()
        n0 = len(w.ops)
        w.check_all()
        for i in range(n0, len(w.ops)):
            pass
        sync()
    w.finish()
    sync()
    p = Prog()
    p.ops, p.exp, p.names, p.muts = w.ops, w.exp, w.opnames, w.muts
    return p


def utils_scenario(rng):
    """calls into cJSON_Utils with no model expectations (allocator routing only: C14)"""
    a = treegen.gen_tree(rng, maxdepth=3, valid_utf8=True, distinct_keys=True)
    b = treegen.gen_tree(rng, maxdepth=3, valid_utf8=True, distinct_keys=True)
    if a.kind != 'o':
        o = Node('o'); a.key = b'a'; o.kids = [a]; a = o
    ops = ['build 1 ' + to_tn(a), 'build 2 ' + to_tn(b), 'genp 3 1 2 1', 'dup 9 1 1', 'patch 9 3 1', 'genm 4 1 2 1', 'dup 5 1 1', 'merge 6 5 4 1',
           'sort 1 0', 'sort 2 1', 'child 7 1 0', 'findp 1 7', 'getp 8 1 =2f61 1', 'getp 8 1 =2f612f30 0', 'carr 10', 'addpatch 10 =616464 =2f78 2',
           'genp 11 2 1 0', 'genm 12 2 1 0', 'print 1 0', 'print 2 1', 'print 3 2 0 1', 'text 6 0',
           # whole-document replacement by values that carry constant keys / come from constant-key members
           'build 13 a1;o3;c6f70;s7265706c616365;c70617468;s;c76616c7565;o1;k61;t', 'dup 14 1 1', 'patch 14 13 1',
           'build 15 o2;c6b31;a1;n3ff0000000000000,1;c6b32;s78;', 'build 16 a1;o3;k6f70;s6d6f7665;k66726f6d;s2f6b31;k70617468;s;', 'patch 15 16 1',
           'build 17 o1;c6b31;o1;c696e;s76;', 'build 18 a1;o3;k6f70;s636f7079;k66726f6d;s2f6b31;k70617468;s;', 'patch 17 18 1', 'print 17 0',
           # NULL arguments where the utilities check for them (a NULL *document* for ApplyPatches is
           # dereferenced by the library and is outside every property: not called)
           # the case-insensitive twins of the utilities (no property quantifies over them, but their
           # memory traffic is the library's all the same): generate, apply, merge, and a hand-written
           # patch whose remove / replace / add go through the case-insensitive object calls
           'dup 20 1 1', 'genp 21 1 2 0', 'patch 20 21 0', 'genm 22 1 2 0', 'dup 23 1 1', 'merge 24 23 22 0', 'text 24 0',
           'build 25 o3;k41;n3ff0000000000000,1;k62;o1;k43;tk64;a1;z', 'build 26 a4;o2;k6f70;s72656d6f7665;k70617468;s2f61;o3;k6f70;s7265706c616365;k70617468;s2f422f63;k76616c7565;fo3;k6f70;s616464;k70617468;s2f442f30;k76616c7565;s78;o2;k6f70;s72656d6f7665;k70617468;s2f6e6f6e65;',
           'patch 25 26 0', 'text 25 0', 'build 27 o2;k61;zk42;o1;k63;z', 'build 28 o3;k41;n3ff0000000000000,1;k62;o2;k43;tk78;fk7a;t', 'merge 29 28 27 0', 'text 29 0',
           'del 20', 'del 21', 'del 22', 'del 24', 'del 25', 'del 26', 'del 27', 'del 29',
           'getp 19 ~ =2f61 1', 'getp 19 1 ~ 1', 'getp 19 ~ ~ 0', 'patch 1 ~ 1', 'patch ~ ~ 0', 'genp 19 ~ 1 1', 'genp 19 1 ~ 0', 'genm 19 1 ~ 1', 'del 19', 'genm 19 ~ 1 0', 'del 19',
           'sort ~ 1', 'sort ~ 0', 'findp ~ 7', 'findp 1 ~', 'addpatch ~ =616464 =2f78 2', 'addpatch 10 ~ =2f78 2', 'addpatch 10 =616464 ~ 2',
           'del 1', 'del 2', 'del 3', 'del 4', 'del 6', 'del 9', 'del 10', 'del 11', 'del 12', 'del 13', 'del 14', 'del 15', 'del 16', 'del 17', 'del 18']
    return ops


def sort_case(rng, distinct):
    """C19: object, sort, observations by dump; a continued edit program when the order is unique"""
    cs = rng.randrange(2)
    n = rng.choice([0, 1, 2, 3, 4, 5, 7, 10, 16, 25, 40])
    pool = [b'a', b'A', b'b', b'B', b'ab', b'aB', b'Ab', b'abc', b'', b'z', b'Z', b'\xc3\xa9', b'\xc3\x89', b'\xff', b'0', b'1', b'10', b'2', b'_', b'a_', b'[', b'`']
    keys = []
    used = set()
    tries = 0
    while len(keys) < n and tries < 400:
        tries += 1
        k = rng.choice(pool) if rng.random() < 0.7 else bytes(rng.choice(b'abAB_z\xe9') for _ in range(rng.randrange(0, 4)))
        kk = k if cs else fold(k)
        if distinct and kk in used:
            continue
        used.add(kk)
        keys.append(k)
    order = rng.choice(['random', 'sorted', 'reverse', 'one-inversion'])
    sk = sorted(keys, key=(lambda k: k) if cs else fold)
    if order == 'sorted':
        keys = sk
    elif order == 'reverse':
        keys = sk[::-1]
    elif order == 'one-inversion' and len(sk) > 1:
        i = rng.randrange(len(sk) - 1)
        sk[i], sk[i + 1] = sk[i + 1], sk[i]
        keys = sk
    o = Node('o')
    for i, k in enumerate(keys):
        c = treegen.gen_tree(rng, maxdepth=2, distinct_keys=False)
        c.key = k
        c.parent = o
        o.kids.append(c)
    return o, cs


# ---------------------------------------------------------------------------------------------

def hooks_accept(key):
    return key.startswith(('hooks/', 'ledger/', 'crash/', 'sanitizer/', 'asan/', 'msan/', 'ubsan/', 'guard/', 'hang', 'runaway', 'stack-overflow', 'borrowed', 'harness/'))


def counters_check(cfg, kv):
    """C14: which routes the library's memory traffic took under configuration cfg -> problems"""
    g = lambda k: int(kv.get(k, '0'))
    req, frees, fn = g('req'), g('frees'), g('freenull')
    wm, wc, wr, wf, hm, hf = g('wm'), g('wc'), g('wr'), g('wf'), g('hm'), g('hf')
    bad = []
    if cfg in ('custom', 'arena'):
        if wm or wc or wr or wf:
            bad.append(('libc-allocator-called', 'malloc=%d calloc=%d realloc=%d free=%d calls reached the C library while custom hooks were installed' % (wm, wc, wr, wf)))
        if hm != req:
            bad.append(('allocation-bypassed-hook', '%d requests, %d through the user allocation function' % (req, hm)))
        if hf != frees + fn:
            bad.append(('release-bypassed-hook', '%d releases, %d through the user release function' % (frees + fn, hf)))
    elif cfg in ('default', 'defaultnull'):
        if hm or hf:
            bad.append(('hook-called-after-reset', 'user functions called %d/%d times although the default allocator is in force' % (hm, hf)))
        if wm + wr + wc == 0 and req:
            bad.append(('default-not-libc', 'requests did not reach the C library'))
    elif cfg == 'onlymalloc':
        if wm or wc or wr:
            bad.append(('libc-allocation-with-custom-malloc', 'malloc=%d calloc=%d realloc=%d reached the C library' % (wm, wc, wr)))
        if hf:
            bad.append(('custom-free-without-one', 'user release function called'))
    elif cfg == 'onlyfree':
        if hm:
            bad.append(('custom-malloc-without-one', 'user allocation function called'))
        if wf or wr:
            bad.append(('libc-release-with-custom-free', 'free=%d realloc=%d reached the C library although a release function is installed' % (wf, wr)))
    return bad


def compare_program(prop, cl, p, out, wit, rerun=None):
    """first difference between the driver's records and the model's predictions"""
    for idx, e in enumerate(p.exp):
        if e is None:
            continue
        got = cl.ops.get(idx)
        if got == e:
            continue
        name = p.names[idx]
        mut = p.muts[idx] if idx < len(p.muts) else ''
        if name == 'chk':
            key = '%s/tree/after-%s' % (prop, mut or 'start')
        else:
            key = '%s/return/%s' % (prop, name)
        det = 'op %d `%s`: model expects %s, library answered %s (last mutation: %s)' % (idx, p.ops[idx][:120], e, got, mut)
        if rerun is not None:
            try:
                det += ' | ' + rerun(cl.id, idx)
            except Exception as x:      # diagnostics only
                det += ' | (no tree dump: %s)' % x
        out.vios.append(Violation(prop, key, det, wit(cl, idx)))
        return False
    return True


def run_shard(shard_prop, bins, workdir, tier):
    prop, (kind, seed, count) = shard_prop
    out = ShardOut()
    thorough = tier == 'thorough'
    rng = random.Random('%s-%s-%s' % (prop, kind, seed))
    cases = []
    progs = {}
    extra = {}
    lim_c = jsonref.circular_limit(REPO)
    if kind == 'prog' and prop in ('C06', 'C07', 'C11'):
        for i in range(count):
            p = gen_program(rng, prop, rng.choice([12, 25, 40, 60]))
            cfg = 'default' if i % 2 == 0 else 'custom'
            cases.append((i, cfg, p.ops))
            progs[i] = p
    elif kind == 'prog' and prop == 'C14':
        for i in range(count):
            cfg = CFGS_ALL[i % len(CFGS_ALL)]
            if i % 3 == 0:
                ops = utils_scenario(rng)
                p = Prog(); p.ops = ops; p.exp = [None] * len(ops); p.names = [o.split()[0] for o in ops]; p.muts = [''] * len(ops)
                extra[i] = [cfg]
            else:
                p = gen_program(rng, 'C14', rng.choice([12, 25, 40]))
                extra[i] = [cfg]
                if i % 4 == 1:
                    # reset in the middle of a case, at a quiescent point (no live blocks)
                    cfg2 = rng.choice([c for c in CFGS_ALL if c != cfg])
                    p2 = gen_program(rng, 'C14', rng.choice([12, 25]))
                    off = len(p.ops) + 1
                    p.ops = p.ops + ['cfg ' + cfg2] + renumber(p2.ops)
                    p.exp = p.exp + [None] + p2.exp
                    p.names = p.names + ['cfg'] + p2.names
                    p.muts = p.muts + [''] + p2.muts
                    extra[i] = [cfg, cfg2]
            cases.append((i, cfg, p.ops))
            progs[i] = p
    elif kind == 'prog' and prop == 'C19':
        for i in range(count):
            distinct = i % 3 != 0
            o, cs = sort_case(rng, distinct)
            via = ['sort', 'genp', 'sort', 'genm', 'sort', 'test'][(i // 3) % 6]
            if via != 'sort' and not distinct:
                via = 'sort'          # the utilities only make sense on objects with distinct keys
            sorter = ('sort 1 %d' % cs) if via == 'sort' else ('sortvia %s 1 %d' % (via, cs))
            member = via == 'sort' and i % 4 == 1     # the object is a constant-key member of a parent: flags on the sorted item
            ck = 'chkn' if member else 'chk'
            if member:
                o.key, o.kconst = b'ck', True
                head = ['build 8 o1;' + to_tn(o), 'child 1 8 0']
                o.key, o.kconst = None, False
            else:
                head = ['build 1 ' + to_tn(o), 'size ~']
            ops = head + ['order 1', sorter, ck + ' 1', 'tn 1', 'order 1', sorter, 'tn 1', 'order 1']
            # continued use: append, insert-free operations that must behave as on any other object
            ops += ['cnum 2 %016x' % 0x4045000000000000, 'addo 1 %s 2' % hx(b'zzz-appended'), ck + ' 1', 'tn 1', 'size 1',
                    'deta 1 0 3', ck + ' 1', 'chk 3', 'tn 1', 'cobj 5', 'htrue 5 =7265706c 4', 'deta 5 0 6', 'repa 1 0 4' if o.kids else 'addo 1 =7265706c 4', ck + ' 1', 'tn 1', 'print 1 0', 'print 1 1', 'del 3', 'del 5']
            ops += (['clr 1', 'del 8'] if member else ['del 1'])
            cases.append((i, 'default' if i % 2 else 'custom', ops))
            extra[i] = (o, cs, distinct, via)
    elif kind == 'parseledger':
        # parse + delete of documents whose tokens sit around the sizes of internal buffers; whatever the
        # parser makes of them (numbers beyond 63 characters are outside C02), the balance must return to zero
        toks = []
        for L in list(range(58, 70)) + [126, 127, 128, 129, 255, 256, 257, 1023, 1024, 1025]:
            toks += [b'1' * L, b'-' + b'9' * (L - 1), b'0.' + b'3' * (L - 2), b'1e' + b'0' * (L - 3) + b'5', b'1' + b'0' * (L - 4) + b'e-9', b'-0.' + b'0' * (L - 5) + b'1E1',
                     b'"' + b'k' * (L - 2) + b'"', b'"' + b'\\u00e9' * ((L - 2) // 6) + b'"', b'"' + b'\\n' * ((L - 2) // 2) + b'"']
        cid = 0
        for t in toks:
            for w in (lambda x: x, lambda x: b'[' + x + b']', lambda x: b'[1,' + x + b',"tail"]', lambda x: b'{"k":' + x + b'}', lambda x: b'{"k":' + x + b',"k2":' + x + b'}',
                      lambda x: b' ' + x + b' ', lambda x: (b'{' + x + b':1}') if x.startswith(b'"') else (b'[' + x + b',' + x + b']')):
                txt = w(t)
                ops = ['parse 1 %d %s 0' % (cid % 4, hx(txt)), 'print 1 1', 'del 1', 'parse 1 %d %s 1' % (1 + 2 * (cid % 2), hx(txt)), 'del 1']
                cases.append((cid, 'default' if cid % 2 else 'custom', ops))
                cid += 1
    elif kind == 'widesort':
        # wide objects on a painted stack: the sort must cope with any width (its stack use may grow
        # with the logarithm of the member count, not with the count), in every arrangement
        n = 20000
        cid = 0
        base = [b'k%05d' % i for i in range(n)]
        r2 = random.Random(5)
        arrangements = {}
        sh = list(base); r2.shuffle(sh)
        arrangements['random'] = sh
        arrangements['sorted'] = list(base)
        arrangements['reverse'] = base[::-1]
        arrangements['sorted-then-small-key-last'] = base[1:] + base[:1]
        arrangements['descent-near-end'] = base[:n - 3] + [base[n - 1], base[n - 3], base[n - 2]]
        arrangements['descent-near-start'] = [base[1], base[0]] + base[2:]
        arrangements['two-runs'] = base[n // 2:] + base[:n // 2]
        arrangements['sawtooth'] = [base[(i % 100) * (n // 100) + i // 100] for i in range(n)]
        arrangements['all-equal'] = [b'same'] * n
        arrangements['case-pairs'] = [(b'K%05d' % (i // 2)) if i % 2 else (b'k%05d' % (i // 2)) for i in range(n)]
        for name, keys in arrangements.items():
            for cs in (1, 0):
                o = Node('o')
                o.kids = [Node('t' if i % 2 else 'z', key=k) for i, k in enumerate(keys)]
                ops = ['build 1 ' + to_tn(o), 'stackop sort 1 %d' % cs, 'chk 1', 'tn 1', 'stackop sort 1 %d' % cs, 'chk 1', 'cnum 2 %016x' % 0x4045000000000000,
                       'addo 1 %s 2' % hx(b'zzz-appended'), 'chk 1', 'size 1', 'stackop sort 1 %d' % cs, 'chk 1', 'del 1']
                cases.append((cid, 'default' if cid % 2 else 'custom', ops))
                extra[cid] = (name, cs, keys)
                cid += 1
    elif kind in ('faultcfg', 'faultleak'):
        from . import p_fault
        cid = 0
        for rep in range(count):
            for sc in p_fault.scenarios(rng):
                if kind == 'faultleak':
                    for cfg in ('default', 'custom'):
                        c, info = p_fault.build_case(cid, cfg, sc)
                        cases.append(c)
                        extra[cid] = (info, cfg)
                        cid += 1
                    continue
                cfg = CFGS_ALL[cid % len(CFGS_ALL)]
                c, info = p_fault.build_case(cid, cfg, sc)
                cases.append(c)
                extra[cid] = [cfg]
                p = Prog(); p.ops = c[2]; p.exp = [None] * len(c[2]); p.names = [o.split()[0] for o in c[2]]; p.muts = [''] * len(c[2])
                progs[cid] = p
                cid += 1
    elif kind == 'deep':
        cid = 0
        for chain_kind in 'ao':
            for elder in (0, 1):
                for depth, expect in ((lim_c - 1, 'p'), (lim_c // 2, 'p'), (lim_c + 2, 'nil'), (2 * lim_c, 'nil')):
                    ops = ['deepchain 1 %s %d %d' % (chain_kind, depth, elder), 'chk 1', 'stackop dup 2 1', 'chk 1', 'chk 2', 'stackop del 2', 'stackop del 1']
                    cases.append((cid, 'custom' if cid % 2 else 'default', ops))
                    extra[cid] = ('chain', chain_kind + ('+elder-siblings' if elder else ''), depth, expect)
                    cid += 1
        # child cycles of 1, 2 and 3 nodes, cut again before deletion
        # breadth is not depth: containers with more children than CJSON_CIRCULAR_LIMIT must be copied
        for shape in ('flat-array', 'flat-object', 'two-level', 'tail-nested'):
            n = lim_c + 1
            if shape == 'flat-array':
                t = Node('a'); t.kids = [Node.num(float(i % 7)) for i in range(n)]
            elif shape == 'flat-object':
                t = Node('o'); t.kids = [Node('t', key=b'k%d' % i) for i in range(n + 4)]
            elif shape == 'two-level':
                inner = Node('a'); inner.kids = [Node('z') for _ in range(n // 2 + 1)]
                t = Node('a'); t.kids = [Node('f') for _ in range(n // 2)] + [inner]
            else:
                cur = Node('a'); cur.kids = [Node.num(1.0)]
                for _ in range(40):
                    o = Node('a'); o.kids = [Node('z') for _ in range(300)] + [cur]; cur = o
                t = cur
            ops = ['build 1 ' + to_tn(t), 'dupx 2 1 0', 'chk 2', 'del 2', 'del 1']
            cases.append((cid, 'custom' if cid % 2 else 'default', ops))
            extra[cid] = ('wide', shape)
            cid += 1
        # cycles that run through a second element (the refused branch has an elder sibling)
        for ncyc in (2, 3):
            ops = ['carr 1', 'carr 2', 'carr 3', 'cnum 4 3ff0000000000000', 'adda 1 4', 'adda 1 2']
            if ncyc == 2:
                ops += ['cnum 5 4000000000000000', 'adda 2 5', 'carr 6', 'adda 2 6', 'setchild 6 1', 'stackop dup 9 1', 'setchild 6 ~', 'clr 2', 'clr 4', 'clr 5', 'clr 6']
            else:
                ops += ['cstr 5 =78', 'adda 2 5', 'adda 2 3', 'ctrue 6', 'adda 3 6', 'carr 7', 'adda 3 7', 'setchild 7 1', 'stackop dup 9 1', 'setchild 7 ~', 'clr 2', 'clr 3', 'clr 4', 'clr 5', 'clr 6', 'clr 7']
            ops += ['chk 1', 'del 9', 'del 1', 'del 2', 'del 3']
            cases.append((cid, 'default', ops))
            extra[cid] = ('cycle', 10 + ncyc)
            cid += 1
        # cycles that close through a reference item (no pointer surgery needed: b holds a reference
        # to its own ancestor a), with and without elder siblings that are copied before the refusal
        for variant in range(4):
            ops = ['carr 1']
            if variant & 1:
                ops += ['cstr 4 =78', 'adda 1 4', 'cnum 5 4000000000000000', 'adda 1 5']
            ops += (['carr 2', 'adda 1 2', 'addrefa 2 1'] if variant < 2 else ['cobj 2', 'adda 1 2', 'addrefo 2 =6b 1'])
            ops += ['stackop dup 9 1', 'del 9', 'del 1', 'clr 2', 'clr 4', 'clr 5']
            cases.append((cid, 'default' if variant & 1 else 'custom', ops))
            extra[cid] = ('cycle', 20 + variant)
            cid += 1
        for ncyc in (1, 2, 3):
            ops = ['carr 1', 'cobj 2', 'carr 3']
            if ncyc == 1:
                ops += ['setchild 1 1', 'stackop dup 9 1', 'setchild 1 ~']
            elif ncyc == 2:
                ops += ['adda 1 2', 'setchild 2 1', 'stackop dup 9 1', 'setchild 2 ~', 'clr 2']
            else:
                ops += ['adda 1 2', 'addo 2 =6b 3', 'setchild 3 1', 'stackop dup 9 1', 'setchild 3 ~', 'clr 2', 'clr 3']
            ops += ['chk 1', 'del 9', 'del 1', 'del 2', 'del 3']
            cases.append((cid, 'default', ops))
            extra[cid] = ('cycle', ncyc)
            cid += 1
    else:
        raise HarnessFailure('unknown shard kind')

    for fl, binary in bins.items():
        by_id = {c[0]: (c[1], c[2]) for c in cases}
        wit = case_witness(by_id, fl, thorough)
        logs = run_batch(binary, fl, cases, workdir, '%s-%s-%s' % (prop, kind, seed), thorough)

        def rerun(cid, idx, fl=fl, binary=binary):
            cfg, ops = by_id[cid]
            ops2 = [('tn ' + o[4:]) if o.startswith('chk ') else o for o in ops]
            l2 = run_batch(binary, fl, [(cid, cfg, ops2)], workdir, 'rerun-%s-%s' % (prop, seed), thorough)
            got = l2[cid].ops.get(idx)
            return 'actual tree: %s' % (' '.join(got)[:600] if got else '?')

        first = fl == sorted(bins)[0]
        for cid, cfg, ops in cases:
            cl = logs[cid]
            acc = hooks_accept if prop == 'C14' else None
            mv = mechanical_violations(prop, cl, wit)
            if acc:
                mv = [v for v in mv if acc(v.key.split('/', 1)[1])]
            out.vios += mv
            out.evals += len(ops)
            if first:
                out.seen(tuple(ops))
                if len(ops) >= 8:
                    out.count('nontrivial')
                for o in ops:
                    out.count('op:' + o.split(' ', 1)[0])
            if cl.died:
                continue
            if kind == 'parseledger':
                out.evals += 2
                if first:
                    out.count('token_length_parses', 2)
                if cl.end and cl.end.get('live') != '0':
                    out.vios.append(Violation(prop, prop + '/parse/leak-around-buffer-sizes', '%s blocks (%s bytes) live after parse + print + delete of a document with a %d-byte text' % (cl.end['live'], cl.end['bytes'], (len(ops[0].split()[3]) - 1) // 2), wit(cl, 0)))
            elif kind == 'faultleak':
                from . import p_fault
                p_fault.judge(prop, cl, extra[cid][0], extra[cid][1], out, wit, first, ledger_only=True)
            elif kind == 'widesort':
                judge_widesort(prop, cl, extra[cid], out, wit, first, fl, logs, cases)
            elif prop in ('C06', 'C07', 'C11') and kind == 'prog':
                p = progs[cid]
                ok = compare_program(prop, cl, p, out, wit, rerun)
                if first:
                    for m in set(p.muts):
                        if m:
                            out.count('mut:' + m)
                if ok and cl.end and cl.end.get('live') != '0':
                    out.vios.append(Violation(prop, 'leak/end-of-history', '%s blocks (%s bytes) still allocated after every root was deleted' % (cl.end['live'], cl.end['bytes']), wit(cl, len(ops) - 1)))
                if ok and cl.end and cl.end.get('badfree') != '0':
                    pass   # already reported through V records
                if first and cid % 40 == 7:
                    out.sample({'cfg': cfg, 'ops': ops[:14] + ['...'], 'n_ops': len(ops), 'ledger': {k: cl.end.get(k) for k in ('req', 'frees', 'peak')} if cl.end else None})
            elif prop == 'C14':
                p = progs[cid]
                compare_program(prop, cl, p, out, wit, None) if False else None
                segs = list(cl.cfgs) + ([cl.end] if cl.end else [])
                names = extra[cid]
                # cl.cfgs[0] is logged at the first `cfg` op and describes the first segment
                for si, kv in enumerate(segs):
                    cfgname = kv.get('cfg')
                    for k, det in counters_check(cfgname, kv):
                        out.vios.append(Violation(prop, 'C14/route/%s/%s' % (cfgname, k), det + ' (segment %d, configurations %s)' % (si, names), wit(cl, 0)))
                    if first:
                        out.count('cfg:' + str(cfgname))
                        out.count('requests_routed', int(kv.get('req', '0')))
                if cl.end and cl.end.get('live') != '0' and cid % 3 != 0 and kind == 'prog':
                    out.vios.append(Violation(prop, 'C14/leak/end-of-history', '%s blocks live at the end under %s' % (cl.end['live'], names), wit(cl, 0)))
                if first and cid % 40 == 7 and cl.end:
                    out.sample({'cfgs': names, 'n_ops': len(ops), 'counters': {k: cl.end.get(k) for k in ('req', 'frees', 'wm', 'wr', 'wf', 'hm', 'hf')}})
            elif prop == 'C19':
                judge_sort(prop, cl, extra[cid], out, wit, first)
                if cl.end and cl.end.get('live') != '0':
                    out.vios.append(Violation(prop, 'C19/leak-after-sort', '%s blocks live after sort, edits and delete (an appended item was dropped?)' % cl.end['live'], wit(cl, 0)))
            elif kind == 'deep':
                judge_deep(prop, cl, extra[cid], out, wit, first, fl)
    return out


def renumber(ops):
    return ops


def judge_widesort(prop, cl, ex, out, wit, first, fl, logs, cases):
    name, cs, keys = ex
    so = [f for _i, f in sorted(cl.ops.items()) if f and f[0] == 'stackop']
    tns = [f for _i, f in sorted(cl.ops.items()) if f and f[0] == 'tn']
    if len(so) != 3 or not tns:
        out.vios.append(Violation(prop, 'C19/no-dump', 'wide object could not be sorted and dumped', wit(cl, 1)))
        return
    used = [int(dict(x.split('=') for x in f[2:])['used']) for f in so]
    # calibration: the same width in random order, same flavour and variant
    cal = logs[0 if cs else 1]
    cso = [f for _i, f in sorted(cal.ops.items()) if f and f[0] == 'stackop']
    if len(cso) != 3:
        raise HarnessFailure('no calibration sort')
    plateau = int(dict(x.split('=') for x in cso[0][2:])['used'])
    out.evals += 3
    if first:
        out.count('wide_sorts', 3)
        out.stats['wide_sort_members_max'] = len(keys)
        out.stats['wide_sort_stack_shuffled_bytes'] = plateau
        out.stats['wide_sort_stack_max'] = max(out.stats.get('wide_sort_stack_max', 0), max(used))
        out.count('widearr:' + name)
        out.seen('widesort', name, cs)
        out.count('nontrivial')
    for j, u in enumerate(used):
        if u > 4 * plateau + 65536:
            out.vios.append(Violation(prop, 'C19/sort/stack-grows-with-width', '%s (%d members, %s): sort used %d bytes of stack, a shuffled object of the same width %d' % (name, len(keys), 'case-sensitive' if cs else 'case-insensitive', u, plateau), wit(cl, 1)))
            break
    t1 = from_tn(tns[0][1]) if not tns[0][1].startswith('crc') else None
    if t1 is None:
        raise HarnessFailure('wide tree dump is a digest')
    ks = [k.key for k in t1.kids]
    kf = (lambda k: k) if cs else fold
    if sorted(ks) != sorted(keys):
        out.vios.append(Violation(prop, 'C19/sort/members-changed', '%s: key multiset changed by the sort' % name, wit(cl, 1)))
    elif any(kf(ks[i]) > kf(ks[i + 1]) for i in range(len(ks) - 1)):
        out.vios.append(Violation(prop, 'C19/sort/not-sorted', '%s: keys not non-decreasing after the sort' % name, wit(cl, 1)))
    sz = next((f for _i, f in sorted(cl.ops.items()) if f and _i == 9), None)
    if sz != [str(len(keys) + 1)]:
        out.vios.append(Violation(prop, 'C19/after-sort/size', '%s: size after append is %s, expected %d' % (name, sz, len(keys) + 1), wit(cl, 9)))


def tn_kids(tn):
    return from_tn(tn)


def judge_sort(prop, cl, ex, out, wit, first):
    o, cs, distinct, via = ex
    keyf = (lambda k: k) if cs else fold
    # SortObject must leave subtrees untouched; the utilities also sort nested objects, so there
    # subtrees are compared as JSON values
    from . import rfc as _rfc
    sub = to_tn if via == 'sort' else (lambda k: (k.key, _rfc.norm_tn(k)))
    tns = [f[1] for idx, f in sorted(cl.ops.items()) if f and f[0] == 'tn']
    orders = [f[1] for idx, f in sorted(cl.ops.items()) if f and f[0] == 'order']
    if len(tns) < 5 or len(orders) < 3:
        out.vios.append(Violation(prop, 'C19/no-dump', 'tree could not be dumped after sorting', wit(cl, 3)))
        return
    before = {}
    for k in o.kids:
        before.setdefault(sub(k), 0)
        before[sub(k)] += 1
    t1 = from_tn(tns[0])
    after = {}
    for k in t1.kids:
        after.setdefault(sub(k), 0)
        after[sub(k)] += 1
    if first:
        out.count('size:%d' % len(o.kids))
        out.count('mode:%s:%s:%s' % (via, 'cs' if cs else 'ci', 'distinct' if distinct else 'dups'))
    if before != after:
        out.vios.append(Violation(prop, 'C19/sort/members-changed', 'multiset of (key, subtree) changed: %d members before, %d after' % (len(o.kids), len(t1.kids)), wit(cl, 2)))
        return
    a0 = sorted(orders[0].split(',')) if orders[0] != '-' else []
    a1 = sorted(orders[1].split(',')) if orders[1] != '-' else []
    if a0 != a1:
        out.vios.append(Violation(prop, 'C19/sort/nodes-changed', 'the set of member node addresses changed', wit(cl, 2)))
        return
    ks = [k.key for k in t1.kids]
    for x, y in zip(ks, ks[1:]):
        if keyf(x) > keyf(y):
            out.vios.append(Violation(prop, 'C19/sort/not-sorted', 'keys not non-decreasing (%s): %r' % ('case-sensitive' if cs else 'case-insensitive', ks[:12]), wit(cl, 2)))
            return
    t2 = from_tn(tns[1])
    ks2 = [keyf(k.key) for k in t2.kids]
    if ks2 != [keyf(k) for k in ks]:
        out.vios.append(Violation(prop, 'C19/sort/not-idempotent', 'second sort changed the key sequence', wit(cl, 6)))
        return
    if distinct and via == 'sort' and (tns[1] != tns[0] or orders[2] != orders[1]):
        out.vios.append(Violation(prop, 'C19/sort/not-idempotent', 'second sort changed the member order although keys are pairwise distinct', wit(cl, 6)))
        return
    # continued use: append -> last member; detach index 0 -> first member gone; replace index 0
    t3 = from_tn(tns[2])
    exp3 = [to_tn(k) for k in t2.kids] + ['k' + b'zzz-appended'.hex() + ';n4045000000000000,42;']
    if [to_tn(k) for k in t3.kids] != exp3:
        out.vios.append(Violation(prop, 'C19/after-sort/append', 'appending after sort: expected %d members with the new one last, got %d' % (len(exp3), len(t3.kids)), wit(cl, 10)))
        return
    if cl.ops.get(14) != [str(len(exp3))]:
        out.vios.append(Violation(prop, 'C19/after-sort/size', 'size after append is %s, expected %d' % (cl.ops.get(14), len(exp3)), wit(cl, 14)))
        return
    t4 = from_tn(tns[3])
    if [to_tn(k) for k in t4.kids] != exp3[1:]:
        out.vios.append(Violation(prop, 'C19/after-sort/detach', 'detaching index 0 after sort left the wrong members', wit(cl, 14)))
        return
    t5 = from_tn(tns[4])
    if [to_tn(k) for k in t5.kids] != ['k7265706c;t'] + exp3[2:]:   # (empty object: the item was appended instead, same dump)
        out.vios.append(Violation(prop, 'C19/after-sort/replace', 'replacing index 0 after sort left the wrong members', wit(cl, 21)))
        return
    for idx in (4, 12, 16, 17, 23):
        f = cl.ops.get(idx)
        if f and f[0] == 'chk' and len(f) > 1 and f[1] == 'bad':
            out.vios.append(Violation(prop, 'C19/after-sort/malformed', 'structural check failed at op %d' % idx, wit(cl, idx)))
            return
    if first and cl.id % 60 == 5:
        out.sample({'sorted_by': via, 'keys_before': [k.key.decode('latin-1') for k in o.kids][:12], 'keys_after': [k.decode('latin-1') for k in ks][:12], 'case_sensitive': bool(cs)})


def judge_deep(prop, cl, ex, out, wit, first, fl):
    if ex[0] == 'wide':
        f = cl.ops.get(1)
        if first:
            out.count('wide:' + ex[1])
        if not f or f[:2] != ['dupx', 'p']:
            out.vios.append(Violation(prop, prop + '/wide/refused', 'Duplicate of a shallow but wide tree (%s) returned %s' % (ex[1], f), wit(cl, 1)))
        if cl.end and cl.end.get('live') != '0':
            out.vios.append(Violation(prop, prop + '/wide/leak', '%s blocks live at the end' % cl.end['live'], wit(cl, 0)))
        return
    if ex[0] == 'chain':
        _, ck, depth, expect = ex
        f = cl.ops.get(2)
        if not f or f[0] != 'stackop':
            out.vios.append(Violation(prop, prop + '/deep/no-result', 'no record for the deep duplicate', wit(cl, 2)))
            return
        kv = dict(x.split('=') for x in f[3:])
        got = f[2]
        if first:
            out.count('deep:%s' % ('ok' if expect == 'p' else 'refused'))
            out.sample({'chain': ck, 'depth': depth, 'result': got, 'stack_bytes': int(kv['used']), 'flavour': fl})
        if got != expect:
            out.vios.append(Violation(prop, prop + '/deep/' + ('refused-within-limit' if expect == 'p' else 'accepted-beyond-limit'), 'chain of %d nested %s: Duplicate returned %s' % (depth, ck, got), wit(cl, 2)))
        if got == 'nil' and kv.get('live_since', '0') != '0':
            out.vios.append(Violation(prop, prop + '/deep/leak-on-refusal', '%s blocks of the partial copy remain' % kv['live_since'], wit(cl, 2)))
        if int(kv['used']) > 8 * 1024 * 1024:
            out.vios.append(Violation(prop, prop + '/deep/stack', '%s bytes of stack' % kv['used'], wit(cl, 2)))
        if cl.ops.get(1) != cl.ops.get(3):
            out.vios.append(Violation(prop, prop + '/deep/source-modified', 'source dump changed across Duplicate', wit(cl, 3)))
        if cl.end and cl.end.get('live') != '0':
            out.vios.append(Violation(prop, prop + '/deep/leak', '%s blocks live at the end' % cl.end['live'], wit(cl, 0)))
    else:
        ncyc = ex[1]
        f = [v for k, v in sorted(cl.ops.items()) if v and v[0] == 'stackop']
        if not f:
            out.vios.append(Violation(prop, prop + '/cycle/no-result', 'no record', wit(cl, 0)))
            return
        kv = dict(x.split('=') for x in f[0][3:])
        if first:
            out.count('cycle:%d' % ncyc)
        if f[0][2] != 'nil':
            out.vios.append(Violation(prop, prop + '/cycle/accepted', '%d-node child cycle was duplicated' % ncyc, wit(cl, 0)))
        elif kv.get('live_since', '0') != '0':
            out.vios.append(Violation(prop, prop + '/cycle/leak-on-refusal', '%s blocks remain' % kv['live_since'], wit(cl, 0)))
        if cl.end and cl.end.get('live') != '0':
            out.vios.append(Violation(prop, prop + '/cycle/leak', '%s blocks live at the end' % cl.end['live'], wit(cl, 0)))


def finish(prop, tier, results):
    tot = ShardOut()
    for r in results:
        tot.merge(r)
    opc = {k[3:]: v for k, v in sorted(tot.stats.items()) if k.startswith('op:')}
    cov = {
        'evaluations': tot.evals,
        'distinct_nontrivial': min(len(tot.distinct), tot.stats.get('nontrivial', 0)),
        'rule': {
            'C06': 'op-programs of 12-60 steps generated against the list/map model (<= 5 live roots, short lists, 9 keys that collide under case folding); after EVERY step every live root is walked (sibling-chain invariants, ledger liveness) and its dump compared with the model; distinct = distinct programs with >= 8 ops; evaluations = ops executed',
            'C07': 'the same histories with parse/print/duplicate/compare, reference nodes (referenced root frozen while referenced), constant keys in a read-only arena, key arguments aliasing the moved item\'s own key; ledger balance 0 after deleting all roots; the C08 scenarios with every request index refused once, judged for allocator balance alone; ASan in one build, poisoning quarantine + guard-paged borrowed arena in the other; distinct = distinct programs with >= 8 ops',
            'C11': 'histories in which a random root (with references and constant keys) is duplicated mid-way (pointer-set disjointness, Compare, text equality in-process) and both trees keep being edited with every root re-checked after every step; chains of LIMIT-1 .. 2xLIMIT nested containers and 1-3 node child cycles on a painted stack; distinct = distinct programs with >= 8 ops',
            'C14': 'model-driven histories and cJSON_Utils scenarios under 6 hook configurations (default, hooks with NULL members, both custom, custom with non-libc arena, only malloc, only free) with mid-case resets at quiescent points; every libc malloc/calloc/realloc/free issued by library object code is counted through link-time interposition; distinct = distinct programs with >= 8 ops',
            'C19': 'objects of 0-40 members (keys with case pairs, prefixes, bytes >= 0x80; random / sorted / reverse / one inversion; with and without duplicates) sorted twice with both variants; dump-based checks of permutation, node identity, order, idempotence, then append / detach / replace / print / delete with dumps; 20000-member objects in 10 arrangements (shuffled, sorted, reverse, descents near either end, two runs, sawtooth, all equal, case pairs) sorted on a painted stack, whose depth must not grow with the width; distinct = distinct cases',
        }[prop],
        'samples': tot.samples[:8],
        'ops_executed_by_kind': opc,
    }
    muts = {k[4:]: v for k, v in sorted(tot.stats.items()) if k.startswith('mut:')}
    if muts:
        cov['programs_reaching_mutation_kind'] = muts
    for k in ('token_length_parses', 'wide_sorts', 'wide_sort_members_max', 'wide_sort_stack_shuffled_bytes', 'wide_sort_stack_max'):
        if k in tot.stats:
            cov[k] = tot.stats[k]
    scn = {k[4:]: v for k, v in sorted(tot.stats.items()) if k.startswith('scn:')}
    if scn:
        cov['fault_scenarios'] = {k: {'runs': v, 'requests_total': tot.stats.get('requests:' + k, 0), 'failure_returns': tot.stats.get('failret:' + k, 0)} for k, v in scn.items()}
    for pre in ('cfg:', 'size:', 'mode:', 'deep:', 'cycle:', 'wide:', 'widearr:'):
        d = {k[len(pre):]: v for k, v in sorted(tot.stats.items()) if k.startswith(pre)}
        if d:
            cov[pre[:-1] + '_counts'] = d
    if 'requests_routed' in tot.stats:
        cov['allocation_requests_observed'] = tot.stats['requests_routed']
    inc = None
    if tot.evals == 0:
        inc = 'nothing was evaluated'
    if prop == 'C14':
        seen = set(cov.get('cfg_counts', {}))
        if not {'default', 'custom', 'arena', 'onlymalloc', 'onlyfree', 'defaultnull'} <= seen:
            inc = 'coverage floor: configurations seen %s' % sorted(seen)
    return tot.vios, cov, inc
