"""C13 - cJSON_Minify: stays inside its buffer for every zero-terminated string; for valid JSON
with whitespace and comments between tokens the result is exactly the token concatenation."""
import random
from . import corpus, jsonref
from .runner import ShardOut, Violation, run_batch, mechanical_violations, case_witness, SEED
from .tn import to_tn, crc_of, hx


def plan(prop, tier):
    q = tier == 'quick'
    flavours = ['asan', 'plain'] if q else ['asan', 'plain', 'msan', 'efence']
    n = 16 if q else 64
    per = 3000 if q else 70000
    shards = [('value', SEED * 1000 + i, per) for i in range(n // 2)] + [('safety', SEED * 1000 + i, per) for i in range(n // 2)]
    shards.append(('prefixes', 0, 0))
    flavours = flavours + ['fuzz']
    for i in range(2 if q else 8):
        shards.append(('fuzz', SEED * 100 + 50 + i, 150000 if q else 1500000))
    return flavours, shards


# comment text is arbitrary bytes: UTF-8 sequences (among them the Unicode line and paragraph
# separators and NEL, which are not line ends here), other control characters, invalid bytes;
# a bare carriage return does not end a // comment either (only \n does), so what follows it on the
# line is still comment text
UTF8 = [b'\xe2\x80\xa8', b'\xe2\x80\xa9', b'\xc2\x85', b'\xc3\xa9', b'\xf0\x9f\x98\x80', b'\xff', b'\x0b', b'\x0c', b'\x7f', b'\xe2\x80', b'\xef\xbb\xbf']


def separator(rng, final=False):
    r = rng.random()
    if r < 0.01:
        body = bytes(rng.choice(b'ab /"\\x') for _ in range(rng.choice([255, 256, 257, 1024, 4096]))).replace(b'*/', b'* ')
        return b'/*' + body + (b' ' if body.endswith(b'*') else b'') + b'*/'
    if r < 0.35:
        return b''
    if r < 0.65:
        return b''.join(rng.choice([b' ', b'\t', b'\r', b'\n']) for _ in range(rng.choice([1, 1, 2, 4])))
    if r < 0.85:
        body = b''.join(rng.choice([b'a', b' ', b'*', b'/', b'"', b'\\', b'* /', b'//', b'/*', b'\n', b'{', b'"x"', b'\\"', b'\r', b'\r\n'] + UTF8) for _ in range(rng.randrange(0, 6)))
        body = body.replace(b'*/', b'* /')
        if body.endswith(b'*') and rng.random() < 0.3:
            body += b' '          # otherwise the comment ends in **/ (or is /***/): still one comment
        return b'/*' + body + b'*/'
    body = b''.join(rng.choice([b'a', b' ', b'*', b'/', b'"', b'\\', b'*/', b'/*', b'\t', b'}', b'"x', b'\\"', b'\r', b'\rb', b'\r,'] + UTF8) for _ in range(rng.randrange(0, 6)))
    if final and rng.random() < 0.5:
        return b'//' + body           # unterminated last line
    return b'//' + body + b'\n'


def run_shard(shard_prop, bins, workdir, tier):
    prop, (kind, seed, count) = shard_prop
    out = ShardOut()
    rng = random.Random('C13-%s-%s' % (kind, seed))
    if kind == 'fuzz':
        from . import fuzzrun
        return fuzzrun.run_fuzz(prop, bins['fuzz'], workdir, seed, count, rng)
    cases = []
    meta = {}
    if kind == 'value':
        for i in range(count):
            toks, v = jsonref.gen_tokens(rng, maxdepth=rng.choice([1, 2, 3, 4]))
            if any(b'\\u0000' in t.lower() for t in toks):
                continue
            text = separator(rng)
            for j, t in enumerate(toks):
                text += t + separator(rng, final=(j == len(toks) - 1))
            if 0 in text:
                continue
            expected = b''.join(toks)
            cases.append((i, 'default', ['minify %s 1' % hx(text)]))
            meta[i] = (text, expected, crc_of(to_tn(v)))
    elif kind == 'safety':
        toks = corpus.dict_tokens()
        bases = corpus.repo_inputs()[:40]
        alpha = b'"\\/*\n \t\r{}[],:a1'
        for i in range(count):
            r = rng.random()
            if r < 0.5:
                b = bytes(rng.choice(alpha) for _ in range(rng.choice([0, 1, 2, 3, 5, 8, 13, 30, 80])))
            elif r < 0.8:
                t, _ = jsonref.gen_text(rng, maxdepth=3)
                b = corpus.mutate(rng, t, toks + [b'//', b'/*', b'*/', b'\\', b'"'])
            else:
                b = corpus.mutate(rng, rng.choice(bases) if bases else b'{}', toks)
            b = b.split(b'\x00')[0]
            cases.append((i, 'default', ['minify %s 0' % hx(b)]))
            meta[i] = (b, None, None)
    else:
        shapes = [b'"', b'"a', b'"\\', b'"\\"', b'"\\\\', b'"\\\\"', b'/', b'//', b'//\n', b'/*', b'/**', b'/**/', b'/* *', b'/*/', b'a/', b'"a"/', b'"\\\\" "b c"',
                  b'"a\\\\", "b c"', b'["x\\\\","y z"]', b'{"a\\\\" : "b  c" , "d" : "e\\\\\\\\" }', b' ', b'', b'\n', b'"/*" /* " */ "//" // "\n"x"', b'"\\"" "\\\\\\"" " "',
                  b'"ab\\', b'/ /x', b'/a', b'1/2', b'"\\\\\\', b'{"k":"v\\\\"}  ', b'"\\\\"  ', b'"\\\\"/*c*/"  "']
        texts = []
        for s in shapes:
            for w in (lambda x: x, lambda x: b' ' + x, lambda x: x + b' ', lambda x: b'[' + x + b',' + x + b']', lambda x: x + x):
                texts.append(w(s))
        for i, p in enumerate(corpus.all_prefixes(texts)):
            cases.append((i, 'default', ['minify %s 0' % hx(p)]))
            meta[i] = (p, None, None)
        base = len(cases)
        cases.append((base, 'default', ['minify ~ 0']))     # NULL string
        meta[base] = (b'', None, None)
        base += 1
        # directed value cases (valid JSON): strings ending in an escaped backslash next to strings with spaces
        directed = [([b'[', b'"a\\\\"', b',', b'"b c"', b']'], None), ([b'{', b'"k\\\\"', b':', b'"v  w"', b'}'], None), ([b'"\\\\"'], None),
                    ([b'[', b'"\\\\\\\\"', b',', b'" "', b',', b'"\\\\\\""', b',', b'"  "', b']'], None), ([b'"/*"', ], None), ([b'[', b'"//"', b',', b'"*/ "', b']'], None)]
        for j, (toks, _) in enumerate(directed):
            for sep in (b'', b' ', b'\n\t', b'/*c*/', b' //x\n'):
                text = sep + sep.join(toks) + sep
                v = jsonref.strict_decode(b''.join(toks))
                _strip_lits(v)
                cases.append((base, 'default', ['minify %s 1' % hx(text)]))
                meta[base] = (text, b''.join(toks), crc_of(to_tn(v)))
                base += 1
    for fl, binary in bins.items():
        if fl == 'fuzz':
            continue
        by_id = {c[0]: (c[1], c[2]) for c in cases}
        wit = case_witness(by_id, fl)
        logs = run_batch(binary, fl, cases, workdir, 'C13-%s-%s' % (kind, seed))
        first = fl == sorted(bins)[0]
        for cid, (text, expected, etn) in meta.items():
            cl = logs[cid]
            out.vios += mechanical_violations(prop, cl, wit)
            if cl.died:
                continue
            f = cl.ops.get(0)
            out.evals += 3
            if first:
                out.seen(text)
                if len(text) > 2:
                    out.count('nontrivial')
                out.count('class:' + ('valid-json-with-comments' if expected is not None else kind))
            if not f or f[0] != 'minify' or len(f) < 3 or not f[2].startswith('out='):
                continue
            got = bytes.fromhex(f[2][5:])
            if len(got) > len(text):
                out.vios.append(Violation(prop, 'C13/longer', 'result longer than input', wit(cl, 0)))
            if expected is not None:
                if got != expected:
                    cls = 'string-altered' if _same_outside_strings(got, expected) else 'whitespace-or-comment-left'
                    if b'\\\\"' in text:
                        cls += '/escaped-backslash'
                    out.vios.append(Violation(prop, 'C13/value/' + cls, 'minify(%r) = %r, expected %r' % (text[:120], got[:120], expected[:120]), wit(cl, 0)))
                else:
                    tnf = f[3][3:] if len(f) > 3 else 'nil'
                    if tnf != etn:
                        out.vios.append(Violation(prop, 'C13/value/parses-differently', 'minified text %r parses to %s, expected %s' % (got[:120], tnf, etn), wit(cl, 0)))
                if first and cid % 211 == 7 and len(text) < 90:
                    out.sample({'input': text.decode('latin-1'), 'minified': got.decode('latin-1')})
    return out


def _strip_lits(v):
    st = [v]
    while st:
        m = st.pop()
        if m.kind == 'n':
            m.sval = None
        if m.kids:
            st.extend(m.kids)


def _same_outside_strings(a, b):
    return jsonref.strip_ws_outside_strings(a).count(b'"') == jsonref.strip_ws_outside_strings(b).count(b'"') and len(a) == len(b)


def finish(prop, tier, results):
    tot = ShardOut()
    for r in results:
        tot.merge(r)
    cov = {
        'evaluations': tot.evals,
        'distinct_nontrivial': min(len(tot.distinct), tot.stats.get('nontrivial', 0)),
        'rule': 'safety: random strings over the characters Minify branches on, mutated documents, every prefix of directed shapes, each with the terminator as the last accessible byte before a guard page (and mirrored) / as an exact-size heap block; value: token lists generated value-first and joined with random whitespace, /* */ and // comments (also an unterminated final line), strings containing //, /*, escaped quotes and ending in escaped backslashes; expected result = token concatenation; distinct = distinct inputs longer than 2 bytes',
        'samples': tot.samples[:8],
        'classes': {k[6:]: v for k, v in sorted(tot.stats.items()) if k.startswith('class:')},
    }
    for k in ('fuzz_execs', 'fuzz_sessions', 'fuzz_cov_edges_max', 'fuzz_new_corpus_units'):
        if k in tot.stats:
            cov[k] = tot.stats[k]
    inc = None
    if tot.evals == 0:
        inc = 'nothing was evaluated'
    return tot.vios, cov, inc
