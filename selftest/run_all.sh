#!/bin/sh
# run_all.sh [tier] : every seeded change against the quick (or given) check of the property it breaks,
# in a scratch worktree through VERIF_REPO.  Prints one line per seed; exit 1 if any seed is missed.
cd "$(dirname "$0")/.."
tier=${1:-quick}
miss=0
for d in seeded/*/; do
  n=$(basename "$d")
  out=$(python3 selftest/seedtest.py "$d" --no-confirm --tier "$tier" 2>&1 | grep -v '^RESULT' | tail -1)
  case "$out" in
    *"rc=1"*) echo "CAUGHT  $n  $(echo "$out" | cut -c1-160)";;
    *) echo "MISSED  $n  $out"; miss=1;;
  esac
done
exit $miss
