#!/usr/bin/python3
"""mutate.py <n> [seed] [workers] : a mechanical mutation campaign against the checks.

Generates n single-point mutants of cJSON.c / cJSON_Utils.c (operator swaps, off-by-one constants,
negated conditions, dropped statements, swapped literals), keeps those that still compile AND pass
the project's own test suite (22 tests, Utils enabled), and runs the quick checks of the properties the
mutated function is anchored in against each of them, in scratch worktrees through VERIF_REPO.
Test-surviving mutants that no mapped check kills are then run against every quick check.  What still
survives is listed for triage: it is either an equivalent mutant or a gap in the checks.

Nothing is written to /repo; scratch worktrees live under /tmp/mut and are removed at the end.
Results: selftest/mutation-<seed>.json (one record per mutant)."""
import os, re, sys, json, random, subprocess, shutil, time
from concurrent.futures import ThreadPoolExecutor

VERIF = os.path.dirname(os.path.dirname(os.path.abspath(__file__)))
ROOT = '/tmp/mut'
ALL = ['C%02d' % i for i in range(1, 20)]


def sh(cmd, timeout=900, env=None):
    try:
        return subprocess.run(cmd, shell=True, stdout=subprocess.PIPE, stderr=subprocess.STDOUT, text=True, timeout=timeout, env=env)
    except subprocess.TimeoutExpired as e:
        class R:
            returncode = 124
            stdout = 'TIMEOUT'
        return R()


def functions(lines):
    """line index -> name of the function whose body contains it (or None)"""
    owner = [None] * len(lines)
    cur = None
    depth = 0
    pending = None
    for i, l in enumerate(lines):
        if depth == 0:
            m = re.match(r'^(?:static|CJSON_PUBLIC\([^)]*\)|cJSON\b)[^;]*?([A-Za-z_][A-Za-z0-9_]*)\s*\([^;]*$', l)
            if m and not l.rstrip().endswith(';'):
                pending = m.group(1)
            if l.startswith('{') and pending:
                cur = pending
                pending = None
        bare = re.sub(r"'(\\.|[^'\\])'|\"(\\.|[^\"\\])*\"", '', l)
        bare = re.sub(r'/\*.*?\*/', '', bare)
        depth += bare.count('{') - bare.count('}')
        if cur and depth > 0:
            owner[i] = cur
        if depth == 0 and cur:
            cur = None
    return owner


def props_for(fname, fn):
    """quick checks whose properties are anchored in this function"""
    if fname == 'cJSON_Utils.c':
        if re.search(r'sort', fn):
            return ['C19', 'C16', 'C17', 'C18']
        if re.search(r'merge', fn, re.I):
            return ['C18']
        if re.search(r'create_patches|compose_patch|GeneratePatches|AddPatchToArray', fn):
            return ['C17']
        if re.search(r'apply_patch|ApplyPatches|detach_path|overwrite_item', fn):
            return ['C16', 'C17']
        if re.search(r'pointer|Pointer|get_item_from|get_array_item|decode_array_index', fn):
            return ['C15', 'C16', 'C17']
        if re.search(r'compare', fn):
            return ['C16', 'C17', 'C18', 'C15', 'C19']
        return ['C15', 'C16', 'C17', 'C18', 'C19']
    if re.search(r'^parse_|^cJSON_Parse|skip_utf8|buffer_skip|utf16|get_decimal|GetErrorPtr', fn):
        return ['C02', 'C03', 'C10', 'C01', 'C08']
    if re.search(r'^print|^cJSON_Print|ensure|update_offset', fn):
        return ['C04', 'C05', 'C09', 'C08']
    if re.search(r'Compare|compare_double', fn):
        return ['C12', 'C04']
    if re.search(r'Duplicate', fn):
        return ['C11', 'C08']
    if re.search(r'inify|skip_oneline|skip_multiline', fn):
        return ['C13']
    if re.search(r'InitHooks|internal_|cJSON_malloc|cJSON_free|cJSON_strdup|cJSON_New_Item', fn):
        return ['C14', 'C07', 'C08']
    if re.search(r'case_insensitive_strcmp|get_object_item|GetObjectItem|HasObjectItem', fn):
        return ['C06', 'C12']
    return ['C06', 'C07', 'C08', 'C11']


def candidates(fname, text):
    """-> list of (line index, kind, new line)"""
    lines = text.split('\n')
    owner = functions(lines)
    out = []
    for i, l in enumerate(lines):
        fn = owner[i]
        s = l.strip()
        if not fn or not s or s.startswith(('/*', '*', '//', '#')):
            continue
        code = l
        tailc = ''
        mc = re.search(r'/\*.*\*/\s*$', code)
        if mc and code[:mc.start()].count('"') % 2 == 0:
            code, tailc = code[:mc.start()], code[mc.start():]      # never mutate inside a trailing comment
        # relational / logical operator swaps (one occurrence each)
        for a, b in (('<=', '<'), ('>=', '>'), ('==', '!='), ('!=', '=='), ('&&', '||'), ('||', '&&')):
            for m in re.finditer(re.escape(a), code):
                out.append((i, 'op %s->%s' % (a, b), code[:m.start()] + b + code[m.end():], fn))
        for m in re.finditer(r'(?<![<>=!\-+&|])<(?![<=])', code):
            if '#include' not in code:
                out.append((i, 'op <-><=', code[:m.start()] + '<=' + code[m.end():], fn))
        for m in re.finditer(r'(?<![<>=!\-+&|])>(?![>=])', code):
            if '->' not in code[max(0, m.start() - 1):m.end()]:
                out.append((i, 'op >->>=', code[:m.start()] + '>=' + code[m.end():], fn))
        # small constants
        for m in re.finditer(r'(?<![\w.])([0-9]+)(?![\w.])', code):
            v = int(m.group(1))
            if v > 1000 or re.search(r'status = \d', code) or '"' in code or "'" in code[max(0, m.start() - 1):m.end() + 1]:
                continue
            for nv in (v + 1, v - 1):
                if nv >= 0:
                    out.append((i, 'const %d->%d' % (v, nv), code[:m.start()] + str(nv) + code[m.end():], fn))
        # negate a condition
        m = re.match(r'^(\s*(?:else )?if\s*)\((.*)\)\s*$', code)
        if m:
            out.append((i, 'negate-if', '%s(!(%s))' % (m.group(1), m.group(2)), fn))
        # literals
        for a, b in (('true', 'false'), ('false', 'true'), ('NULL', '(void*)1')):
            if re.search(r'return\s+%s\s*;' % a, code) and b != '(void*)1':
                out.append((i, 'return %s->%s' % (a, b), re.sub(r'return\s+%s\s*;' % a, 'return %s;' % b, code), fn))
        # drop a simple statement (assignment, increment, call) - not declarations, not returns/gotos
        if re.match(r'^\s+[A-Za-z_(*][^=;]*(\+\+|--|[-+|&]?=[^=]|\()[^;]*;\s*(/\*.*\*/)?\s*$', code) and not re.match(r'^\s*(return|goto|break|continue|const|static|unsigned|size_t|int|char|double|cJSON|cJSON_bool|parse_buffer|printbuffer|internal_hooks|error)\b', code):
            out.append((i, 'drop-statement', re.match(r'^\s*', code).group(0) + ';', fn))
        # +/- swaps in arithmetic
        for m in re.finditer(r' \+ ', code):
            out.append((i, 'op +->-', code[:m.start()] + ' - ' + code[m.end():], fn))
        for m in re.finditer(r' - ', code):
            out.append((i, 'op -->+', code[:m.start()] + ' + ' + code[m.end():], fn))
    return [(fname, i, kind, new, fn) for (i, kind, new, fn) in out if new.strip() != lines[i].strip() and new.strip() != re.sub(r'/\*.*\*/\s*$', '', lines[i]).strip()]


def setup_worker(k):
    wt = '%s/wt%d' % (ROOT, k)
    sh('git -C /repo worktree remove --force %s' % wt)
    shutil.rmtree(wt, ignore_errors=True)
    r = sh('git -C /repo worktree add --detach %s HEAD' % wt)
    if r.returncode:
        raise SystemExit('worktree: ' + r.stdout)
    r = sh('cmake -S %s -B %s/b -DENABLE_CJSON_UTILS=ON -DENABLE_CJSON_TEST=ON -DCMAKE_BUILD_TYPE=Debug >/dev/null && cmake --build %s/b -j4 2>&1 | tail -3' % (wt, wt, wt))
    if r.returncode:
        raise SystemExit('cmake: ' + r.stdout)
    return wt


def run_checks(wt, props, jobs):
    res = {}
    env = dict(os.environ)
    env.update({'VERIF_REPO': wt, 'VERIF_OUT': wt + '-out', 'VERIF_JOBS': str(jobs)})
    for p in props:
        r = subprocess.run(['./check', p, 'quick'], cwd=VERIF, env=env, stdout=subprocess.PIPE, stderr=subprocess.STDOUT, text=True)
        keys = re.findall(r'key=(\S+)', r.stdout)
        res[p] = {'rc': r.returncode, 'keys': keys[:5]}
        real = [k for k in keys if 'hang' not in k]
        if r.returncode == 1 and real:
            return res, p        # killed
        if r.returncode == 2:
            res[p]['tail'] = r.stdout[-300:]
    return res, None


def one(job):
    k, mut, jobs = job
    fname, li, kind, new, fn = mut
    wt = '%s/wt%d' % (ROOT, k)
    path = os.path.join(wt, fname)
    orig = open(path).read()
    lines = orig.split('\n')
    rec = {'file': fname, 'line': li + 1, 'function': fn, 'kind': kind, 'old': lines[li].strip(), 'new': new.strip()}
    lines[li] = new
    open(path, 'w').write('\n'.join(lines))
    try:
        r = sh('cmake --build %s/b -j4 2>&1 | tail -5' % wt, timeout=300)
        if r.returncode or 'error' in r.stdout.lower() or 'warning' in r.stdout.lower():
            rec['status'] = 'does-not-build-cleanly'
            return rec
        r = sh('ctest --test-dir %s/b -j4 --timeout 60 2>&1 | tail -4' % wt, timeout=400)
        if '100% tests passed' not in r.stdout:
            rec['status'] = 'killed-by-project-tests'
            return rec
        props = props_for(fname, fn)
        res, killer = run_checks(wt, props, jobs)
        rec['checks'] = res
        if killer:
            rec['status'] = 'killed'
            rec['killed_by'] = killer
            return rec
        rest = [p for p in ALL if p not in props]
        res2, killer = run_checks(wt, rest, jobs)
        rec['checks'].update(res2)
        if killer:
            rec['status'] = 'killed-by-unmapped-check'
            rec['killed_by'] = killer
        elif any(v['rc'] == 2 for v in rec['checks'].values()):
            rec['status'] = 'INCONCLUSIVE'      # some check could not decide (harness failure): look at it
        elif any(v['rc'] == 1 for v in rec['checks'].values()):
            rec['status'] = 'HANG-ONLY'         # the only symptom was a hang key (not counted as a kill under load)
        else:
            rec['status'] = 'SURVIVED'
        return rec
    finally:
        open(path, 'w').write(orig)
        shutil.rmtree(wt + '-out', ignore_errors=True)


def main():
    n = int(sys.argv[1])
    seed = int(sys.argv[2]) if len(sys.argv) > 2 else 1
    workers = int(sys.argv[3]) if len(sys.argv) > 3 else 3
    rng = random.Random(seed)
    cands = []
    for f in ('cJSON.c', 'cJSON_Utils.c'):
        cands += candidates(f, open('/repo/' + f).read())
    rng.shuffle(cands)
    # at most two mutants per source line, spread over functions
    seen = {}
    pick = []
    for c in cands:
        key = (c[0], c[1])
        if seen.get(key, 0) >= 1:
            continue
        seen[key] = seen.get(key, 0) + 1
        pick.append(c)
        if len(pick) >= n:
            break
    os.makedirs(ROOT, exist_ok=True)
    for k in range(workers):
        setup_worker(k)
    jobs = max(2, 16 // workers)
    out = []
    t0 = time.time()
    import queue, threading
    q = queue.Queue()
    for m in pick:
        q.put(m)
    lock = threading.Lock()

    def work(k):
        while True:
            try:
                m = q.get_nowait()
            except queue.Empty:
                return
            rec = one((k, m, jobs))
            with lock:
                out.append(rec)
                print('%4d/%d %-28s %s:%d %-18s %s' % (len(out), len(pick), rec['status'] + ('(' + rec.get('killed_by', '') + ')' if rec.get('killed_by') else ''), rec['file'], rec['line'], rec['kind'], rec['function']), flush=True)
                json.dump(out, open(os.path.join(VERIF, 'selftest', 'mutation-%d.json' % seed), 'w'), indent=1)
    ths = [threading.Thread(target=work, args=(k,)) for k in range(workers)]
    for t in ths:
        t.start()
    for t in ths:
        t.join()
    for k in range(workers):
        sh('git -C /repo worktree remove --force %s/wt%d' % (ROOT, k))
    sh('git -C /repo worktree prune')
    shutil.rmtree(ROOT, ignore_errors=True)
    st = {}
    for r in out:
        st[r['status']] = st.get(r['status'], 0) + 1
    print('summary', st, 'wall %.0fs' % (time.time() - t0))
    for r in out:
        if r['status'] in ('SURVIVED', 'INCONCLUSIVE', 'HANG-ONLY'):
            print('%s %%s:%%d [%%s] %%s: `%%s` -> `%%s`' % r['status'] % (r['file'], r['line'], r['function'], r['kind'], r['old'], r['new']))


if __name__ == '__main__':
    main()
