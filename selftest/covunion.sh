#!/bin/sh
# covunion.sh [tier] : which lines of cJSON.c / cJSON_Utils.c does the union of all checks reach?
# Runs every VM-driven check with the gcov flavour only, merges the counters and prints the lines never
# executed (a survey tool for finding generator gaps; it decides nothing).
cd "$(dirname "$0")/.."
tier=${1:-quick}
W=$(mktemp -d /tmp/covunion.XXXXXX)
export VERIF_OUT=$W/out VERIF_KEEP=1 VERIF_ONLY_FLAVOURS=cov
for p in C01 C02 C03 C04 C05 C06 C07 C08 C09 C10 C11 C12 C13 C14 C15 C16 C17 C18 C19; do
  ./check $p $tier > $W/$p.txt 2>&1
  d=$(sed -n 's/^kept build dir //p' $W/$p.txt | tail -1)
  if [ -d "$d/cov" ]; then
    mkdir -p $W/acc/$p; cp "$d"/cov/*.gcda "$d"/cov/*.gcno $W/acc/$p/ 2>/dev/null
  fi
  [ -n "$d" ] && rm -rf "$d"
  echo "$p $(tail -1 $W/$p.txt | cut -c1-120)"
done
# merge: gcov each, then sum counts per line
for p in $W/acc/*; do (cd $p && gcov -o . cov-cJSON.gcda cov-cJSON_Utils.gcda >/dev/null 2>&1); done
python3 - "$W" <<'EOF'
import sys, os, re, glob
W = sys.argv[1]
for src in ('cJSON.c', 'cJSON_Utils.c'):
    tot = {}
    text = {}
    for f in glob.glob(W + '/acc/*/' + src + '.gcov'):
        for line in open(f, errors='replace'):
            m = re.match(r'\s*([^:]+):\s*(\d+):(.*)', line)
            if not m:
                continue
            c, n, t = m.group(1).strip(), int(m.group(2)), m.group(3)
            if n == 0:
                continue
            text[n] = t
            if c == '-':
                continue
            v = 0 if c in ('#####', '=====') else int(re.sub(r'\D', '', c) or 0)
            tot[n] = tot.get(n, 0) + v
    ex = [n for n in tot if tot[n] > 0]
    print('%s: %d of %d executable lines reached by the union' % (src, len(ex), len(tot)))
    for n in sorted(tot):
        if tot[n] == 0:
            print('   never: %s:%d:%s' % (src, n, text[n][:110]))
EOF
rm -rf "$W"
