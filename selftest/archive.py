#!/usr/bin/python3
"""archive.py <seedout dir> <name> <note>: run seedtest (confirmation + the property's quick check) and
store the seed under /verif/seeded/<name>/ with an extended meta.json."""
import os, sys, json, subprocess, shutil
VERIF = os.path.dirname(os.path.dirname(os.path.abspath(__file__)))
src, name = sys.argv[1], sys.argv[2]
note = sys.argv[3] if len(sys.argv) > 3 else ''
extra = sys.argv[4] if len(sys.argv) > 4 else None
cmd = [os.path.join(VERIF, 'selftest', 'seedtest.py'), src]
if extra:
    cmd += ['--checks', extra]
r = subprocess.run(cmd, stdout=subprocess.PIPE, stderr=subprocess.STDOUT, text=True)
line = [l for l in r.stdout.splitlines() if l.startswith('RESULT ')]
if not line:
    print(r.stdout[-2000:]); sys.exit(1)
res = json.loads(line[0][7:])
meta = json.load(open(os.path.join(src, 'meta.json')))
ok = res.get('tests_pass_with_patch') and res.get('tests_pass_default_config') and res.get('demo_fails_with_patch') and res.get('demo_passes_without_patch')
if not ok:
    print('NOT CONFIRMED', res); sys.exit(1)
dst = os.path.join(VERIF, 'seeded', name)
os.makedirs(dst, exist_ok=True)
for f in os.listdir(src):
    if f in ('patch.diff', 'meta.json') or (f.startswith('demo') and os.path.isfile(os.path.join(src, f)) and not os.access(os.path.join(src, f), os.X_OK) or f.endswith(('.c', '.sh'))):
        if f.startswith(('prompt', 'property')):
            continue
        shutil.copy(os.path.join(src, f), os.path.join(dst, f))
meta.update({
    'breaks_property': meta.get('property'),
    'origin': 'written by an independent sub-agent that saw only the property text and a scratch worktree',
    'confirmed_by_me': {'existing_tests_pass_with_patch_utils_on_22': res['tests_pass_with_patch'], 'existing_tests_pass_with_patch_default_19': res['tests_pass_default_config'],
                        'demo_fails_with_patch': res['demo_fails_with_patch'], 'demo_passes_without_patch': res['demo_passes_without_patch'],
                        'how': 'selftest/seedtest.py: fresh scratch worktree of /repo HEAD, git apply patch.diff, cmake+ctest (both configurations), demo with and without the patch'},
    'checks_run': {c: {'exit': v['rc'], 'violation_keys': v['keys']} for c, v in res['checks'].items()},
    'caught_by_quick': sorted(c for c, v in res['checks'].items() if v['rc'] == 1),
    'note': note,
})
json.dump(meta, open(os.path.join(dst, 'meta.json'), 'w'), indent=1)
print(name, 'archived; caught by', meta['caught_by_quick'])
