#!/usr/bin/python3
"""Regenerate the table of section 13 of DESIGN.md from seeded/*/meta.json."""
import json, os, re
V = os.path.dirname(os.path.dirname(os.path.abspath(__file__)))
rows = []
missed = 0
for d in sorted(os.listdir(V + '/seeded')):
    m = json.load(open('%s/seeded/%s/meta.json' % (V, d)))
    keys = []
    for c in m['caught_by_quick']:
        keys += m['checks_run'][c]['violation_keys'][:1]
    if m['note'].startswith(('MISSED', 'first missed')) or 'by luck' in m['note']:
        missed += 1
    rows.append('| `%s` | %s | %s | %s | %s |' % (d, m['summary'][:150].replace('|', '/').replace('\n', ' '), ','.join(m['caught_by_quick']),
                                                   ', '.join('`%s`' % k.split('/', 1)[1][:44] for k in keys[:2]), m['note'].replace('|', '/')))
txt = open(V + '/DESIGN.md').read()
a = txt.index('| seed | change | caught by (quick) | first key | note |')
b = txt.index('\n\n', a)
txt = txt[:a] + '| seed | change | caught by (quick) | first key | note |\n|------|--------|-------------------|-----------|------|\n' + '\n'.join(rows) + txt[b:]
n = len(rows)
txt = re.sub(r'\d+ of the \d+ were caught by the property\'s \*quick\* check as first built; \d+ were missed',
             "%d of the %d were caught by the property's *quick* check as first built; %d were missed" % (n - missed, n, missed), txt)
open(V + '/DESIGN.md', 'w').write(txt)
print(n, 'seeds,', missed, 'missed at first')
