#!/usr/bin/python3
"""seedtest.py <seed dir> [--checks C01,C02|all] [--tier quick]
Confirm a seeded change (patch.diff + demo + meta.json) in a scratch worktree of /repo and run
checks against it through VERIF_REPO.  Never touches /repo's working tree."""
import os, sys, json, subprocess, shutil, re, time

VERIF = os.path.dirname(os.path.dirname(os.path.abspath(__file__)))
ALL = ['C%02d' % i for i in range(1, 21)]


def sh(cmd, **kw):
    return subprocess.run(cmd, shell=True, stdout=subprocess.PIPE, stderr=subprocess.STDOUT, text=True, **kw)


def main():
    d = os.path.abspath(sys.argv[1])
    checks = None
    tier = 'quick'
    confirm = True
    for i, a in enumerate(sys.argv):
        if a == '--checks':
            checks = ALL if sys.argv[i + 1] == 'all' else sys.argv[i + 1].split(',')
        if a == '--tier':
            tier = sys.argv[i + 1]
        if a == '--no-confirm':
            confirm = False
    meta = json.load(open(os.path.join(d, 'meta.json')))
    prop = meta['property']
    if checks is None:
        checks = [prop]
    wt = '/tmp/cf-%s-%d' % (os.path.basename(d), os.getpid())
    sh('git -C /repo worktree add -q --detach %s HEAD' % wt)
    res = {'seed': os.path.basename(d), 'property': prop}
    try:
        r = sh('git -C %s apply %s' % (wt, os.path.join(d, 'patch.diff')))
        if r.returncode != 0:
            print('patch does not apply:', r.stdout)
            return 2
        if confirm:
            r = sh('cd %s && cmake -G Ninja -B _build -S . -DENABLE_CJSON_UTILS=ON >/dev/null 2>&1 && cmake --build _build 2>&1 | tail -3 && ctest --test-dir _build -j8 2>&1 | tail -3' % wt)
            res['tests_pass_with_patch'] = '100% tests passed' in r.stdout
            print('tests with patch:', r.stdout.strip().splitlines()[-3:] if not res['tests_pass_with_patch'] else 'pass (22)')
            r2 = sh('cd %s && rm -rf _build && cmake -G Ninja -B _build -S . >/dev/null 2>&1 && cmake --build _build 2>&1 | tail -3 && ctest --test-dir _build -j8 2>&1 | tail -3' % wt)
            res['tests_pass_default_config'] = '100% tests passed' in r2.stdout
            sh('rm -rf %s/_build' % wt)
            # demo: rewrite the agent's worktree path to ours
            cmd = meta.get('demo_build_run', '')
            orig = re.search(r'/tmp/wt\d?/C\d+', cmd + open(os.path.join(d, 'patch.diff')).read() + ''.join(open(os.path.join(d, f), errors='replace').read() for f in os.listdir(d) if f.startswith('demo')))
            origp = orig.group(0) if orig else None
            demodir = wt + '/_demo'
            os.makedirs(demodir, exist_ok=True)
            for f in os.listdir(d):
                if f.startswith('demo'):
                    t = open(os.path.join(d, f), errors='replace').read()
                    if origp:
                        t = t.replace(origp, wt)
                    t = re.sub(r'/tmp/seed(?:out|\d)/C\d+', demodir, t).replace('/verif/seeded/' + os.path.basename(d), demodir)
                    open(os.path.join(demodir, f), 'w').write(t)
            if origp:
                cmd = cmd.replace(origp, wt)
            cmd = re.sub(r'/tmp/seed(?:out|\d)/C\d+', demodir, cmd).replace('/verif/seeded/' + os.path.basename(d), demodir)
            r = sh('cd %s && %s' % (demodir, cmd), timeout=600)
            res['demo_fails_with_patch'] = r.returncode != 0
            print('demo with patch: rc=%s %s' % (r.returncode, r.stdout.strip()[-200:].replace('\n', ' | ')))
            sh('git -C %s checkout -- .' % wt)
            r = sh('cd %s && %s' % (demodir, cmd), timeout=600)
            res['demo_passes_without_patch'] = r.returncode == 0
            print('demo without patch: rc=%s %s' % (r.returncode, r.stdout.strip()[-120:].replace('\n', ' | ')))
            sh('git -C %s apply %s' % (wt, os.path.join(d, 'patch.diff')))
            shutil.rmtree(demodir, ignore_errors=True)
        res['checks'] = {}
        for c in checks:
            t0 = time.time()
            env = dict(os.environ)
            env['VERIF_REPO'] = wt
            env['VERIF_OUT'] = wt + '-out'      # evidence and replays of runs against the scratch copy stay out of /verif
            r = subprocess.run(['./check', c, tier], cwd=VERIF, env=env, stdout=subprocess.PIPE, stderr=subprocess.STDOUT, text=True)
            keys = re.findall(r'key=(\S+)', r.stdout)
            res['checks'][c] = {'rc': r.returncode, 'keys': keys[:6], 'wall_s': round(time.time() - t0, 1)}
            print('%s %s: rc=%d %s' % (c, tier, r.returncode, keys[:4]))
        print('RESULT ' + json.dumps(res))
    finally:
        sh('git -C /repo worktree remove --force %s' % wt)
        shutil.rmtree(wt, ignore_errors=True)
        shutil.rmtree(wt + '-out', ignore_errors=True)
    return 0


if __name__ == '__main__':
    sys.exit(main())
